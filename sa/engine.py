"""Shared helpers for the rule modules: cached source models, symbolic runs, standard abstraction points."""
import os
from . import terms as T
from .terms import C, NONE
from . import symeval as SE
from .srcmodel import Model, AnalysisError

HERE = os.path.dirname(os.path.abspath(__file__))
_cache = {}


def repo_model(root):
    if ('repo', root) not in _cache:
        _cache[('repo', root)] = Model(root)
    return _cache[('repo', root)]


def spec_model():
    if 'spec' not in _cache:
        _cache['spec'] = Model(HERE, pkg='refspec', enforce_floors=False)
    return _cache['spec']


def run(model, name, bound=None, overrides=None, kinds=None, no_inline=(), selfobj=None, ctx=None):
    """Symbolically evaluate function ``name`` (bare or qualified).  Returns (result term, ctx)."""
    fn = model.funcs[name] if name in model.funcs else model.find(name)
    ctx = ctx or SE.Ctx(model, overrides=overrides, kinds=kinds, no_inline=no_inline)
    fr = SE.Frame(ctx, fn, dict(bound or {}), selfobj=selfobj)
    n0 = len(ctx.raises)
    res = fr.run()
    ctx.frame = fr
    if model is not _cache.get('spec'):
        # Python-level errors the evaluator models exactly (unbound name, missing attribute of a constructed object, **None, duplicate keyword):
        # on a path a rule runs they mean "this call raises instead of returning", whatever else the rule was looking at
        for r in ctx.raises[n0:]:
            if len(r) > 3 and r[3] == 'implicit' and (r[0], r[2]) not in {(p[0], p[2]) for p in PYERRORS}:
                PYERRORS.append((r[0], r[1], r[2], fn.qual))
    return res, ctx


PYERRORS = []


def report_pyerrors(rep):
    from . import terms as T_
    rep.rule('NO-PYERROR', 'no path evaluated by the rules above contains a Python-level error that the evaluator models exactly (NameError / UnboundLocalError for a name '
                           'that is unbound on that path, AttributeError for a missing attribute of a constructed object, TypeError for **None or a duplicate keyword): '
                           'such a call raises instead of producing the result the property talks about')
    for kind, guard, where, entry in PYERRORS:
        rep.violation('NO-PYERROR', f'{kind}@{where}', where, expected='the path returns', found=f'{kind} raised when {entry} is evaluated' +
                      ('' if guard == T_.TRUE else f' under {T_.brief(guard, 100)}'))


def spec(name, bound=None, overrides=None, kinds=None, repo=None):
    ctx = SE.Ctx(spec_model(), overrides=overrides, kinds=kinds)
    ctx.fallback = repo
    return run(spec_model(), name, bound, ctx=ctx)


# ------------------------------------------------------------------ standard abstraction points
N_EXT = ('atom', 'n_ext', 'int')            # number of peaks == number of troughs (first_extrema forced)
P, TR = ('atom', 'P', 'intarr'), ('atom', 'TR', 'intarr')
R, D = ('atom', 'R', 'intarr'), ('atom', 'D', 'intarr')
T.ATOM_LEN.update({'P': N_EXT, 'TR': N_EXT, 'R': T.sub(N_EXT, C(1)), 'D': N_EXT})


def abs_find_extrema(fr, bound, n):
    """find_extrema(...) -> (peaks, troughs) as atoms: P0 < T0 < P1 < ... (first_extrema='peak'), equal counts."""
    return ('tuple', (P, TR))


def abs_find_zerox(fr, bound, n):
    """find_zerox(sig, peaks, troughs) -> (rises, decays): with a peak first, len(rises) = n-1, len(decays) = n."""
    return ('tuple', (R, D))


CYCLEPOINT_ABS = {'find_extrema': abs_find_extrema, 'find_zerox': abs_find_zerox}


def table_of(cols, nrows):
    return ('table', tuple(sorted(cols.items())), nrows)


def abstract_table(name, columns):
    """a DataFrame parameter with a known column set: columns are ('col', name, c) atoms"""
    return ('table', tuple(sorted((c, ('col', name, c)) for c in columns)), ('nrows', name))


SAMPLE_COLS = {
    'peak': dict(l='sample_last_trough', m0='sample_last_zerox_decay', m1='sample_zerox_rise', c='sample_peak',
                 m2='sample_zerox_decay', n='sample_next_trough'),
    'trough': dict(l='sample_last_peak', m0='sample_last_zerox_rise', m1='sample_zerox_decay', c='sample_trough',
                   m2='sample_zerox_rise', n='sample_next_peak'),
}
SHAPE_COLS = ['period', 'time_peak', 'time_trough', 'volt_peak', 'volt_trough', 'time_decay', 'time_rise', 'volt_decay',
              'volt_rise', 'volt_amp', 'time_rdsym', 'time_ptsym', 'band_amp']
BURST_COLS = {'cycles': ['amp_fraction', 'amp_consistency', 'period_consistency', 'monotonicity'], 'amp': ['burst_fraction']}


def mu(name):
    """mirror map: swap peak<->trough and rise<->decay inside a column name"""
    import re
    sw = {'peak': 'trough', 'trough': 'peak', 'rise': 'decay', 'decay': 'rise'}
    return re.sub(r'peak|trough|rise|decay', lambda m: sw[m.group(0)], name)


def site(model, fname, node=None):
    fn = model.funcs[fname] if fname in model.funcs else model.find(fname)
    return f'{fn.path}:{(node or fn.node).lineno} {fn.name}'


def calls_to(ctx, short):
    """trace events for calls to a package function (by bare name) or an external (by name)"""
    return [e for e in ctx.trace if e['kind'] in ('pkgcall', 'call') and e['name'].rsplit('.', 1)[-1] == short]


def effective(model, callee, event, param):
    """value a call event passes for ``param`` (the callee's default when omitted)"""
    fn = model.find(callee)
    b = event.get('bound', {})
    if param in b:
        return b[param]
    if param in fn.defaults:
        import ast as _ast
        d = fn.defaults[param]
        if isinstance(d, _ast.Constant):
            return T.Cdec(d.value)
        return ('default', _ast.unparse(d))
    return ('unbound', param)


HEAVY = ('compute_shape_features', 'compute_burst_fraction', 'detect_bursts_amp', 'detect_bursts_cycles', 'drop_samples_df',
         'compute_amp_fraction', 'compute_amp_consistency', 'compute_period_consistency', 'compute_monotonicity')


def make_object(ctx, model, cls, bound):
    """construct a modelled object by evaluating its __init__ symbolically"""
    oid = ctx.fresh('obj')
    ctx.heap[oid] = {'cls': cls, 'attrs': {}}
    init = model.lookup_method(cls, '__init__')
    if init is None:
        raise AnalysisError(f'{cls}.__init__ not found')
    run(model, init.qual, dict(bound, self=('obj', oid)), ctx=ctx)
    ctx.heap[oid]['constructed'] = True
    return ('obj', oid)


def attrs(ctx, obj):
    return ctx.heap[obj[1]]['attrs']
