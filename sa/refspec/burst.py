"""Reference definitions of the burst features and burst labelling (properties C05, C06, C07, C08;
DESIGN.md Appendix A.3), written from the documentation."""
import numpy as np
from neurodsp.burst import detect_bursts_dual_threshold


# ------------------------------------------------------------------------------------------ C05
def amp_fraction(S):
    # average rank of volt_amp, divided by the number of cycles
    return S['volt_amp'].rank() / len(S)


def amp_consistency(S, direction, centre):
    n = len(S)
    out = np.zeros(n)
    out[0] = np.nan
    out[-1] = np.nan
    r = S['volt_rise']
    d = S['volt_decay']
    for k in range(1, n - 1):
        # the three adjacent rise/decay pairs that include one of the flanks of cycle k
        cur = np.min([r[k], d[k]]) / np.max([r[k], d[k]])
        if centre == 'peak':
            # trough-to-trough cycle: rise_k follows decay_(k-1); decay_k precedes rise_(k+1)
            last = np.min([r[k], d[k - 1]]) / np.max([r[k], d[k - 1]])
            nxt = np.min([r[k + 1], d[k]]) / np.max([r[k + 1], d[k]])
        else:
            # peak-to-peak cycle: decay_k follows rise_(k-1); rise_k precedes decay_(k+1)
            last = np.min([r[k - 1], d[k]]) / np.max([r[k - 1], d[k]])
            nxt = np.min([r[k], d[k + 1]]) / np.max([r[k], d[k + 1]])
        if direction == 'both':
            out[k] = np.nanmin([cur, nxt, last])
        elif direction == 'next':
            out[k] = np.nanmin([cur, nxt])
        elif direction == 'last':
            out[k] = np.nanmin([cur, last])
    out[out < 0] = 0
    return out


def period_consistency(S, direction):
    n = len(S)
    out = np.zeros(n)
    out[0] = np.nan
    out[-1] = np.nan
    p = S['period']
    for k in range(1, n - 1):
        last = np.min([p[k], p[k - 1]]) / np.max([p[k], p[k - 1]])
        nxt = np.min([p[k + 1], p[k]]) / np.max([p[k + 1], p[k]])
        if direction == 'both':
            out[k] = np.min([nxt, last])
        elif direction == 'next':
            out[k] = nxt
        elif direction == 'last':
            out[k] = last
    return out


def monotonicity(S, x, centre):
    n = len(S)
    out = np.zeros(n)
    for i, row in enumerate(S.to_dict('records')):
        if centre == 'peak':
            rise = x[row['sample_last_trough']:row['sample_peak'] + 1]       # inclusive of both extrema
            decay = x[row['sample_peak']:row['sample_next_trough'] + 1]
        else:
            decay = x[row['sample_last_peak']:row['sample_trough'] + 1]
            rise = x[row['sample_trough']:row['sample_next_peak'] + 1]
        out[i] = np.mean([np.mean(np.diff(rise) > 0), np.mean(np.diff(decay) < 0)])
    return out


# ------------------------------------------------------------------------------------------ C08
def min_run_filter(q, m):
    """clear every maximal run of True shorter than m; nothing else changes (schema of DESIGN.md C08)"""
    if len(q) == 0:
        return q
    d = np.diff(q, prepend=0, append=0)
    t = np.flatnonzero(d)
    on, off = t[0::2], t[1::2]
    short = (off - on) < m
    for a, b in zip(on[short], off[short]):
        q[a:b] = False
    return q


# ------------------------------------------------------------------------------------------ C06
def labels_cycles(S, amp_fraction_threshold, amp_consistency_threshold, period_consistency_threshold,
                  monotonicity_threshold, min_n_cycles):
    q = (S['amp_fraction'] > amp_fraction_threshold) & (S['amp_consistency'] > amp_consistency_threshold) \
        & (S['period_consistency'] > period_consistency_threshold) & (S['monotonicity'] > monotonicity_threshold)
    q = q.to_numpy(copy=True)
    if len(q) > 0:
        q[0] = False
        q[-1] = False
    return min_run_filter(q, min_n_cycles)


# ------------------------------------------------------------------------------------------ C07
def burst_fraction(S, x, fs, f_range, amp_threshes, min_n_cycles, min_burst_duration, filter_kwargs, centre):
    if min_burst_duration is not None:
        min_n_cycles = None
    mask = detect_bursts_dual_threshold(x, fs, amp_threshes, f_range, min_n_cycles=min_n_cycles,
                                        min_burst_duration=min_burst_duration, **filter_kwargs)
    side = 'trough' if centre == 'peak' else 'peak'
    out = []
    for row in S.to_dict('records'):
        # last side extremum .. next side extremum, both inclusive
        out.append(np.mean(mask[row['sample_last_' + side]:row['sample_next_' + side] + 1]))
    return out


def labels_amp(S, burst_fraction_threshold, min_n_cycles):
    q = np.array([f >= burst_fraction_threshold for f in S['burst_fraction']])
    return min_run_filter(q, min_n_cycles)
