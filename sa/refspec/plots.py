"""Reference data for the plotting functions (property C20): what is handed to the drawing primitives."""
import numpy as np
from .frames import limit_table


def burst_mask(S, n_samples, fs, start, side):
    """samples of cycles labelled is_burst, from last to next side extremum inclusive, relative to the first plotted sample"""
    m = np.zeros(n_samples, dtype=bool)
    for cyc in S.loc[S['is_burst']].to_dict('records'):
        m[int(cyc['sample_last_' + side]) - int(round(fs * start)):int(cyc['sample_next_' + side] + 1) - int(round(fs * start))] = True
    return m


def marker_series(sig, times, fs, points):
    """cyclepoints inside the plotted window, as (time, plotted signal value) through one and the same index"""
    cps = points[(points >= times[0] * fs) & (points < times[-1] * fs)]
    cps = cps - int(round(times[0] * fs))
    return times[cps], sig[cps]


def panel_cycles(S, fs, xlim, side, centre, n_times):
    """the cycles shown in a parameter panel: inside the window, re-indexed to it, and ending on a plotted sample (a cycle whose next side
    is the sample AT the closing limit passes limit_table's inclusive bound but has no plotted sample there: the view holds times < stop)"""
    S = limit_table(S, fs, xlim[0], xlim[1], True, centre)
    S = S[(S['sample_last_' + side] >= 0) & (S['sample_next_' + side] < n_times)]
    return S
