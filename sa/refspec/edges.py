"""Reference for edge recomputation (property C16, DESIGN.md section 5)."""
from copy import deepcopy
import numpy as np
from bycycle.burst import detect_bursts_cycles
from bycycle.burst.utils import recompute_edge
from bycycle.features.burst import compute_amp_consistency, compute_period_consistency


def edges(S, threshold_kwargs):
    """work on a copy; for the k-th transition of is_burst: even k -> the cycle before the burst looks 'next', odd k -> the cycle
    after the burst (transition + 1) looks 'last'; then the threshold-and-run rule on the edited table"""
    out = S.copy()
    b = deepcopy(out['is_burst'].values)
    t = np.where(b[1:] == ~b[:-1])[0]
    starts = np.array([e for k, e in enumerate(t) if k % 2 == 0])
    ends = np.array([e + 1 for k, e in enumerate(t) if k % 2 == 1])
    for s, e in zip(starts, ends):
        out = recompute_edge(out, s, 'next')
        out = recompute_edge(out, e, 'last')
    out = detect_bursts_cycles(out, **threshold_kwargs)
    return out


def edge(S, c, direction):
    """only the two consistency cells of row c change: element 1 of the directional consistency of rows [c-1, c+2) clipped to the table"""
    w = S.iloc[range(max(c - 1, 0), min(c + 2, len(S)))].copy()
    S.iloc[c, S.columns.get_loc('amp_consistency')] = compute_amp_consistency(w, direction=direction)[1]
    S.iloc[c, S.columns.get_loc('period_consistency')] = compute_period_consistency(w, direction=direction)[1]
    return S
