"""Reference definitions for the table / signal utilities (properties C13, C18; DESIGN.md section 5)."""
import numpy as np
import pandas as pd


def epochs(S, sig_len, epoch_len, centre):
    """one table per epoch k = (k*L, (k+1)*L]: the cycles whose CLOSING side extremum lies in it, in order, every sample
    column shifted by the epoch start, nothing else changed"""
    closing = 'sample_next_trough' if centre == 'peak' else 'sample_next_peak'
    last = np.arange(epoch_len, sig_len + epoch_len, epoch_len)
    first = np.append(0, last[:-1])
    out = []
    for a, b in zip(first, last):
        rows = np.where((S[closing].values <= b) & (S[closing].values > a))[0]
        part = S.iloc[rows]
        part.reset_index(drop=True, inplace=True)
        for col in [c for c in part.columns if c.startswith('sample_')]:
            part[col] = part[col] - a
        out.append(part)
    return out


def limit_table(S, fs, start, stop, reset_indices, centre):
    """rows whose last side extremum lies at a time >= start (start None -> 0) and, when stop is given, whose next side extremum lies at a
    time <= stop -- compared in seconds (sample / fs), which is exact for limits on the sample grid, not in samples (start * fs can fall
    just above the integer it stands for and drop the cycle that starts exactly there); with reset_indices every sample column is shifted
    by int(round(fs*start))"""
    side = 'trough' if centre == 'peak' else 'peak'
    start = 0 if start is None else start
    S = S[S['sample_last_' + side].values / fs >= start]
    if stop is not None:
        S = S[S['sample_next_' + side].values / fs <= stop]
    if reset_indices:
        for col in [c for c in S.columns if c.startswith('sample_')]:
            S[col] = S[col] - int(round(fs * start))
    return S


def limit_sig(times, sig, start, stop):
    if start is not None:
        sig = sig[times >= start]
        times = times[times >= start]
    if stop is not None:
        sig = sig[times < stop]
        times = times[times < stop]
    return sig, times
