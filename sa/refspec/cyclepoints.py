"""Reference for the cyclepoint code (properties C01, C02, C03; DESIGN.md section 5 and Appendix A.1)."""
from operator import gt, lt
import numpy as np
import pandas as pd
from neurodsp.filt import filter_signal
from neurodsp.filt.fir import compute_filter_length
from bycycle.cyclepoints.zerox import find_flank_zerox
from bycycle.cyclepoints import find_extrema, find_zerox


# ------------------------------------------------------------------------------------------ C02
def crossings(x, flank, level):
    """sample just before x crosses ``level`` in the flank's direction: rise = (x <= level) then (x > level); decay = (x > level) then (x <= level)"""
    if level is None:
        level = 0
    below = x <= level if flank == 'rise' else x > level
    idx = (below[:-1] & ~below[1:]).nonzero()[0]
    idx = [int(len(x) / 2)] if len(idx) == 0 else idx
    return idx


def extrema(sig, fs, f_range, boundary, first_extrema, filter_kwargs, pass_type, pad):
    if filter_kwargs is None:
        filter_kwargs = {}
    n = len(sig)                      # length BEFORE padding
    width = 0
    if pad:
        n_seconds = filter_kwargs.get('n_seconds', None)
        n_cycles = filter_kwargs.get('n_cycles', 3 if n_seconds is None else None)      # never both: the callee rejects the pair
        width = compute_filter_length(fs, pass_type, f_range[0], f_range[1], n_seconds=n_seconds, n_cycles=n_cycles)
        sig = np.pad(sig, int(np.ceil(width / 2)), mode='constant')
    # half-waves of the narrowband signal, searched in the RAW (padded) signal
    narrow = filter_signal(sig, fs, pass_type, f_range, remove_edges=False, **filter_kwargs)
    rise = find_flank_zerox(narrow, 'rise')
    decay = find_flank_zerox(narrow, 'decay')
    # only half-waves closed by crossings on both sides
    if rise[-1] > decay[-1]:
        n_peaks = len(rise) - 1
        n_troughs = len(decay)
    else:
        n_peaks = len(rise)
        n_troughs = len(decay) - 1
    peaks = np.zeros(n_peaks, dtype=int)
    rest = decay.copy()
    for k in range(n_peaks):
        a = rise[k]
        for j, d in enumerate(rest):
            if d > a:
                rest = rest[j:]
                break
        b = rest[0]
        peaks[k] = np.argmax(sig[a:b]) + a              # first maximum of the raw signal over (rise, next decay)
    troughs = np.zeros(n_troughs, dtype=int)
    rest = rise.copy()
    for k in range(n_troughs):
        a = decay[k]
        for j, r in enumerate(rest):
            if r > a:
                rest = rest[j:]
                break
        b = rest[0]
        troughs[k] = np.argmin(sig[a:b]) + a
    peaks = peaks - int(np.ceil(width / 2))             # un-pad by exactly the pad width
    troughs = troughs - int(np.ceil(width / 2))
    peaks = peaks[np.logical_and(peaks > boundary, peaks < n - boundary)]          # strict on both sides, original length
    troughs = troughs[np.logical_and(troughs > boundary, troughs < n - boundary)]
    if first_extrema == 'peak':
        troughs = troughs[1:] if peaks[0] > troughs[0] else troughs
        peaks = peaks[:-1] if peaks[-1] > troughs[-1] else peaks
    elif first_extrema == 'trough':
        peaks = peaks[1:] if troughs[0] > peaks[0] else peaks
        troughs = troughs[:-1] if troughs[-1] > peaks[-1] else troughs
    return peaks, troughs


# ------------------------------------------------------------------------------------------ C03
def midpoints(sig, flank, n_flanks, start, end, bias):
    """one midpoint per flank [start, end] (inclusive): the median (rounded down) of the samples just before the raw signal crosses
    the half-height level in the flank's direction; the temporal centre when the window is all zero or the flank is inverted"""
    bias = -bias + 1 if flank == 'rise' else bias
    inverted = gt if flank == 'rise' else lt
    out = np.zeros(n_flanks, dtype=int)
    for k in range(n_flanks):
        w = sig[start[k]:end[k + bias] + 1]
        if np.sum(np.abs(w)) == 0:
            out[k] = start[k] + int(len(w) / 2.)
        elif inverted(w[0], w[-1]):
            out[k] = start[k] + int(len(w) / 2.)
        else:
            level = (w[0] + w[-1]) / 2.
            out[k] = start[k] + int(np.median(find_flank_zerox(w, flank, level)))
    return out


def zerox(sig, peaks, troughs):
    """rises are searched trough -> peak, decays peak -> trough; whichever extremum comes first has one flank fewer before it"""
    n_rises = len(peaks)
    n_decays = len(troughs)
    bias = 0
    if peaks[0] < troughs[0]:
        n_rises -= 1
    else:
        n_decays -= 1
        bias += 1
    rises = midpoints(sig, 'rise', n_rises, troughs, peaks, bias)
    decays = midpoints(sig, 'decay', n_decays, peaks, troughs, bias)
    return rises, decays


# ------------------------------------------------------------------------------------------ C01
def cyclepoints(sig, fs, f_range, find_extrema_kwargs):
    """row i of the table: last side T_i, previous decay midpoint D_i, rise midpoint R_i, centre P_(i+1), decay midpoint D_(i+1), next side T_(i+1)
    for extrema P0 < T0 < P1 < ... (first_extrema='peak', the callee's default)"""
    peaks, troughs = find_extrema(sig, fs, f_range, **find_extrema_kwargs)
    rises, decays = find_zerox(sig, peaks, troughs)
    return pd.DataFrame.from_dict({'sample_peak': peaks[1:], 'sample_last_zerox_decay': decays[:-1], 'sample_zerox_decay': decays[1:],
                                   'sample_zerox_rise': rises, 'sample_last_trough': troughs[:-1], 'sample_next_trough': troughs[1:]})
