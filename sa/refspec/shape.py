"""Reference definitions of the shape features (property C04, DESIGN.md Appendix A.2), written from the
documentation, in terms of the cyclepoint columns of the *returned* table and the *original* signal."""
import numpy as np
from neurodsp.timefrequency import amp_by_time


def shape_features(S, x, fs, f_range, n_cycles, centre):
    out = {}
    if centre == 'peak':
        l, c, n = S['sample_last_trough'], S['sample_peak'], S['sample_next_trough']
        m0, m1, m2 = S['sample_last_zerox_decay'], S['sample_zerox_rise'], S['sample_zerox_decay']
        out['time_rise'] = c - l                     # last trough -> peak
        out['time_decay'] = n - c                    # peak -> next trough
        out['time_peak'] = m2 - m1                   # rise midpoint -> decay midpoint
        out['time_trough'] = m1 - m0                 # previous decay midpoint -> rise midpoint
        out['volt_peak'] = x[c]
        out['volt_trough'] = x[l]
        out['volt_rise'] = x[c] - x[l]
        out['volt_decay'] = x[c] - x[n]
    else:
        l, c, n = S['sample_last_peak'], S['sample_trough'], S['sample_next_peak']
        m0, m1, m2 = S['sample_last_zerox_rise'], S['sample_zerox_decay'], S['sample_zerox_rise']
        out['time_decay'] = c - l                    # last peak -> trough
        out['time_rise'] = n - c                     # trough -> next peak
        out['time_trough'] = m2 - m1                 # decay midpoint -> rise midpoint
        out['time_peak'] = m1 - m0                   # previous rise midpoint -> decay midpoint
        out['volt_trough'] = x[c]
        out['volt_peak'] = x[l]
        out['volt_decay'] = x[l] - x[c]
        out['volt_rise'] = x[n] - x[c]
    out['period'] = n - l
    out['volt_amp'] = (out['volt_rise'] + out['volt_decay']) / 2
    out['time_rdsym'] = out['time_rise'] / out['period']
    out['time_ptsym'] = out['time_peak'] / (out['time_peak'] + out['time_trough'])
    amp = amp_by_time(x, fs, f_range, remove_edges=False, n_cycles=n_cycles)
    out['band_amp'] = [np.mean(amp[l[i]:n[i]]) for i in range(len(l))]
    return out
