"""Reference for the interpolated phase (property C17): anchor table, interpolation wiring, branch merge, span mask."""
import numpy as np


def phase(sig, peaks, troughs, rises, decays):
    n = len(sig)
    t = np.arange(n)
    up = np.zeros(n) * np.nan        # troughs at +pi
    dn = np.zeros(n) * np.nan        # troughs at -pi
    # midpoints first, extrema afterwards (an extremum that coincides with a midpoint wins)
    if rises is not None:
        up[rises] = -np.pi / 2
        dn[rises] = -np.pi / 2
    if decays is not None:
        up[decays] = np.pi / 2
        dn[decays] = np.pi / 2
    up[peaks] = 0
    up[troughs] = np.pi
    dn[peaks] = 0
    dn[troughs] = -np.pi
    up = np.interp(t, t[~np.isnan(up)], up[~np.isnan(up)])
    dn = np.interp(t, t[~np.isnan(dn)], dn[~np.isnan(dn)])
    return merge(up, dn)


def merge(up, dn):
    # +pi branch exactly where the -pi branch is decreasing
    d = np.append(np.diff(dn), np.nan)
    pha = np.array([up[i] if d[i] < 0 else p for i, p in enumerate(dn)])
    # NaN before the first and after the last supplied cyclepoint: interpolation is constant outside the span
    d = np.diff(pha)
    first = next(i for i, x in enumerate(d) if x != 0)
    pha[:first] = np.nan
    d = np.diff(pha)
    last = next(i for i, x in enumerate(d[::-1]) if x != 0)
    pha[len(pha) - last:] = np.nan
    return pha
