"""L2 term language and normaliser (no solver: canonical forms + structural equality).

Terms are nested tuples whose first element is a tag:

  ('const', v)                      int / Fraction / str / bool / None / float('inf') / float('nan')
  ('param', name)                   free input of the analysed entry point
  ('atom', name, kind)              abstract value introduced at an abstraction point
  ('col', table, name)              column of an abstract table (table is a string id)
  ('nrows', table)                  number of rows of an abstract table
  ('lv', key, depth)                bound loop / comprehension variable; key describes what it ranges over
  ('lin', c, ((t, k), ...))         affine sum  c + sum k*t   (exact rationals)
  ('mul', (t, ...))  ('div', a, b)  ('floordiv', a, b)  ('mod', a, b)  ('pow', a, b)
  ('idx', base, key)                base[key]  (element, fancy or column access)
  ('slice', base, lo, hi, step)
  ('cmp', op, a, b)                 op in Gt GtE Eq NotEq Is IsNot In NotIn ; ('cmp0', op, d)  means  d op 0
  ('and', (..)) ('or', (..)) ('not', t)          python-level logic
  ('band', (..)) ('bor', (..)) ('binv', t)       element-wise & | ~
  ('call', name, args, kwargs)      modelled / external call; kwargs = sorted tuple of (key, term)
  ('gamma', cond, a, b)             value selected by a data-dependent condition
  ('tuple', (..)) ('list', (..)) ('dict', ((k, v), ..)) ('table', ((col, t), ..), nrows)
  ('arr', init, stores)             array built by subscript stores; store = (index, value, guard)
  ('map', key, elt)                 element-wise definition over everything ``key`` ranges over
  ('first', key, cond, elt)         next(elt for .. in .. if cond)
  ('carried', k, key) ('loopout', key, init, update, brk)
  ('opaque', text)                  unmodelled construct
"""
from fractions import Fraction
import math

INF = float('inf')


def C(v):
    if isinstance(v, float) and not isinstance(v, bool):
        if v != v:
            return ('const', 'nan')
        if v in (INF, -INF):
            return ('const', 'inf' if v > 0 else '-inf')
        v = Fraction(v).limit_denominator(10 ** 9) if Fraction(v).denominator > 10 ** 9 else Fraction(v)
        # keep literals such as 0.1 readable and exact w.r.t. their decimal text
    if isinstance(v, Fraction) and v.denominator == 1:
        v = int(v)
    return ('const', v)


def Cdec(text_value):
    """Constant from a python float literal: use its shortest decimal repr so that .5 == 1/2, .1 == 1/10."""
    if isinstance(text_value, bool) or text_value is None or isinstance(text_value, (str, bytes)):
        return ('const', text_value)
    if isinstance(text_value, int):
        return ('const', text_value)
    if isinstance(text_value, float):
        if text_value != text_value:
            return ('const', 'nan')
        if text_value in (INF, -INF):
            return ('const', 'inf' if text_value > 0 else '-inf')
        f = Fraction(repr(text_value))
        return ('const', int(f) if f.denominator == 1 else f)
    if isinstance(text_value, complex):
        return ('opaque', repr(text_value))
    return ('const', text_value)


NAN = ('const', 'nan')
PINF = ('const', 'inf')
TRUE, FALSE, NONE = ('const', True), ('const', False), ('const', None)


def isconst(t):
    return t[0] == 'const'


def isnum(t):
    return t[0] == 'const' and isinstance(t[1], (int, Fraction)) and not isinstance(t[1], bool)


def key(t):
    return repr(t)


def sort_terms(ts):
    return tuple(sorted(ts, key=key))


# ------------------------------------------------------------------------------------------ arithmetic
def lin(const, items):
    d = {}
    order = []
    const = Fraction(const)
    for t, c in items:
        c = Fraction(c)
        if t[0] == 'lin':
            const += Fraction(t[1]) * c
            for tt, cc in t[2]:
                if tt not in d:
                    order.append(tt)
                d[tt] = d.get(tt, 0) + Fraction(cc) * c
        elif isnum(t):
            const += Fraction(t[1]) * c
        else:
            if t not in d:
                order.append(t)
            d[t] = d.get(t, 0) + c
    items = tuple(sorted(((t, _fr(c)) for t, c in d.items() if c != 0), key=lambda x: key(x[0])))
    const = _fr(const)
    if not items:
        return ('const', const)
    # const + sum + k*(p/q)  ->  single fraction over q   (needed for 1 - a/b == (b-a)/b)
    divs = [(t, c) for t, c in items if t[0] == 'div']
    if len(divs) == 1 and (const != 0 or len(items) > 1):
        (dv, k), rest = divs[0], [(t, c) for t, c in items if t[0] != 'div']
        p, q = dv[1], dv[2]
        num = lin(0, [(mul(lin(const, rest), q), 1), (p, k)])
        return div(num, q)
    if const == 0 and len(items) == 1 and items[0][1] == 1:
        return items[0][0]
    return ('lin', const, items)


def _fr(c):
    c = Fraction(c)
    return int(c) if c.denominator == 1 else c


def add(a, b):
    return lin(0, [(a, 1), (b, 1)])


def sub(a, b):
    return lin(0, [(a, 1), (b, -1)])


def neg(a):
    return lin(0, [(a, -1)])


def mul(a, b):
    if isnum(a):
        return lin(0, [(b, a[1])])
    if isnum(b):
        return lin(0, [(a, b[1])])
    if a[0] == 'lin' or b[0] == 'lin':
        # distribute (keeps 1*q - p style numerators canonical)
        if a[0] != 'lin':
            a, b = b, a
        out = [(mul(t, b), c) for t, c in a[2]]
        if a[1] != 0:
            out.append((b, a[1]))
        return lin(0, out)
    if a[0] == 'div':
        return div(mul(a[1], b), a[2])
    if b[0] == 'div':
        return div(mul(a, b[1]), b[2])
    for x, y in ((a, b), (b, a)):
        if x == ('const', 'nan') and y[0] == 'call' and y[1] in ('zeros', 'ones') and len(y[2]) == 1 and not y[3]:
            return ('call', 'full', (y[2][0], x), ())          # zeros(n) * nan is an all-NaN array: np.full(n, nan)
    fs = []
    for t in (a, b):
        fs.extend(t[1] if t[0] == 'mul' else [t])
    return ('mul', sort_terms(fs))


def div(a, b):
    if isnum(b) and b[1] != 0:
        return lin(0, [(a, Fraction(1) / Fraction(b[1]))])
    if a[0] == 'div':
        return div(a[1], mul(a[2], b))
    if b[0] == 'div':
        return div(mul(a, b[2]), b[1])
    if a == b and a[0] != 'const':
        return ('div', a, b)   # x/x is not folded (0/0)
    # common rational factor: (k*p)/(k*q)
    return ('div', a, b)


def floordiv(a, b):
    if isnum(a) and isnum(b) and b[1] != 0:
        return ('const', _fr(Fraction(a[1]) // Fraction(b[1])))
    return ('floordiv', a, b)


def mod(a, b):
    if isnum(a) and isnum(b) and b[1] != 0:
        return ('const', _fr(Fraction(a[1]) % Fraction(b[1])))
    return ('mod', a, b)


def power(a, b):
    return ('pow', a, b)


# ------------------------------------------------------------------------------------------ size budget
_SIZE = {}
SIZE_CAP = 10 ** 9
MAX_SEEN = [0]


def tsize(t):
    """number of nodes of a term counted as a tree (shared sub-terms counted each time they occur), memoised per tuple object"""
    if not isinstance(t, tuple):
        return 1
    k = id(t)
    hit = _SIZE.get(k)
    if hit is not None and hit[0] is t:
        return hit[1]
    n = 1
    for x in t:
        if isinstance(x, tuple):
            n += tsize(x)
            if n > SIZE_CAP:
                n = SIZE_CAP
                break
    _SIZE[k] = (t, n)
    if n > MAX_SEEN[0]:
        MAX_SEEN[0] = n
    return n


# ------------------------------------------------------------------------------------------ kinds
def is_int(t):
    """Integer-valued scalar (so that int(t) is the identity)."""
    tag = t[0]
    if tag == 'const':
        return isinstance(t[1], int) and not isinstance(t[1], bool)
    if tag in ('lv', 'nrows', 'len'):
        return True
    if tag == 'atom':
        return t[2] == 'int'
    if tag == 'idx':
        return is_intarr(t[1]) and (is_int(t[2]) or t[2][0] in ('lv',))
    if tag == 'lin':
        return Fraction(t[1]).denominator == 1 and all(Fraction(c).denominator == 1 and is_int(x) for x, c in t[2])
    if tag in ('floordiv', 'mod'):
        return is_int(t[1]) and is_int(t[2])
    if tag == 'mul':
        return all(is_int(x) for x in t[1])
    if tag == 'call':
        return t[1] in ('int', 'len', 'argmax', 'argmin')
    if tag == 'gamma':
        return is_int(t[2]) and is_int(t[3])
    if tag == 'carried':
        return False
    return False


def is_boolarr(t):
    if t[0] == 'nd':
        t = t[1]
    tag = t[0]
    if tag == 'col':
        return t[2] == 'is_burst'
    if tag in ('cmp0', 'band', 'bor', 'binv'):
        return True
    if tag == 'atom':
        return t[2] == 'boolarr'
    if tag == 'slice':
        return is_boolarr(t[1])
    if tag == 'idx' and t[2][0] in ('rowsel',):
        return is_boolarr(t[1])
    if tag == 'not' and t[1][0] == 'cmp':
        return is_boolarr(t[1][2]) and is_boolarr(t[1][3])
    if tag == 'cmp' and t[1] in ('Eq',):
        return is_boolarr(t[2]) and is_boolarr(t[3])
    return False


def is_intarr(t):
    if t[0] == 'nd':
        t = t[1]
    tag = t[0]
    if tag == 'col':
        return t[2].startswith('sample_')
    if tag == 'atom':
        return t[2] == 'intarr'
    if tag == 'slice':
        return is_intarr(t[1])
    if tag == 'idx':
        return is_intarr(t[1]) and not is_int(t[2])
    if tag == 'call':
        return t[1] in ('flatnonzero', 'nonzero0', 'arange', 'unique', 'append', 'where0') and \
            (t[1] in ('flatnonzero', 'nonzero0', 'where0', 'arange') or all(is_intarr(a) or is_int(a) for a in t[2]))
    if tag == 'lin':
        return Fraction(t[1]).denominator == 1 and all(Fraction(c).denominator == 1 and (is_intarr(x) or is_int(x)) for x, c in t[2]) \
            and any(is_intarr(x) for x, c in t[2])
    if tag == 'gamma':
        return is_intarr(t[2]) and is_intarr(t[3])
    return False


# ------------------------------------------------------------------------------------------ structure
LINEAR_ELEMENTWISE = ('idx', 'slice')
HOMOGENEOUS_CALLS = {'diff', 'mean', 'sum', 'median', 'nanmean'}     # f(k*x) == k*f(x)
EVEN_HOMOGENEOUS_CALLS = {'amp_by_time', 'abs'}                       # f(k*x) == |k|*f(x)
SIGN_INVARIANT_CALLS = {'detect_bursts_dual_threshold'}                # f(-x) == f(x): thresholds on the analytic amplitude
SIGN_SWAP_CALLS = {'argmax': 'argmin', 'argmin': 'argmax', 'max': 'min', 'min': 'max',
                   'nanmax': 'nanmin', 'nanmin': 'nanmax'}


SCALARS = set()       # terms known to be scalars (numeric parameters per numpydoc): broadcast, never indexed


def is_scalar(t):
    return is_int(t) or t in SCALARS or isnum(t) or (t[0] == 'atom' and t[2] == 'num')        # atoms of kind 'num' stand for one number


REDUCERS = ('min', 'max', 'nanmin', 'nanmax', 'mean', 'nanmean', 'sum', 'median', 'pymin', 'pymax', 'argmax', 'argmin', 'any', 'all')


def scalar_value(t):
    """t certainly denotes one number (so that min([t]) / max([t]) is t itself)"""
    tag = t[0]
    if is_scalar(t):
        return True
    if tag == 'call':
        return t[1] in REDUCERS and len(t[2]) == 1 and not t[3]
    if tag == 'idx':
        return t[1][0] in ('col', 'atom') and (is_int(t[2]) or t[2][0] == 'lv')
    if tag == 'lin':
        return all(scalar_value(x) for x, c in t[2])
    if tag == 'mul':
        return all(scalar_value(x) for x in t[1])
    if tag == 'div':
        return scalar_value(t[1]) and scalar_value(t[2])
    if tag == 'gamma':
        return scalar_value(t[2]) and scalar_value(t[3])
    return False


def _masklike(k):
    return k[0] in ('cmp0', 'band', 'bor', 'binv') or (k[0] == 'not' and k[1][0] == 'cmp')


def _compose_masks(inner_mask, outer_mask, wrap=None):
    """X[m1][m2] where m2 is an element-wise condition on arrays selected with the same m1  ==  X[m1 & m2']  (m2' on the unselected arrays)"""
    sel = (lambda z: ('idx', z, inner_mask)) if wrap is None else (lambda z: ('idx', z, (wrap, inner_mask)))
    hits = [x for x in walk(outer_mask) if x[0] == 'idx' and x[2] == (inner_mask if wrap is None else (wrap, inner_mask))]
    if not hits:
        return None
    lifted = subst(outer_mask, lambda x: x[1] if x[0] == 'idx' and x[2] == (inner_mask if wrap is None else (wrap, inner_mask)) else None)
    return band([inner_mask, lifted])


def index(base, k):
    if base[0] == 'nd':
        base = base[1]
    if base[0] == 'idx' and _masklike(k) and _masklike(base[2]):
        m = _compose_masks(base[2], k)
        if m is not None:
            return index(base[1], m)
    if base[0] == 'idx' and k[0] == 'rowsel' and base[2][0] == 'rowsel' and _masklike(k[1]) and _masklike(base[2][1]):
        m = _compose_masks(base[2][1], k[1], wrap='rowsel')
        if m is not None:
            return index(base[1], ('rowsel', m))
    if base[0] == 'lin' and (base[1] == 0 or _pointwise_key(k)):      # (sum c_i x_i)[k] = sum c_i x_i[k]   (scalars are broadcast, not indexed)
        return lin(base[1] if _pointwise_key(k) else 0, [(t if is_scalar(t) else index(t, k), c) for t, c in base[2]])
    if base[0] == 'cmp0' and _pointwise_key(k):           # element k of an element-wise comparison / conjunction
        return cmp_(base[1], index(base[2], k), ('const', 0))
    if base[0] in ('band', 'bor') and _pointwise_key(k):
        return (band if base[0] == 'band' else bor)([index(x, k) for x in base[1]])
    if base[0] == 'binv' and _pointwise_key(k):
        return binv(index(base[1], k))
    if base[0] == 'not' and _pointwise_key(k) and base[1][0] == 'cmp':
        return not_(index(base[1], k))
    if base[0] == 'cmp' and base[1] == 'Eq' and _pointwise_key(k):      # element k of an element-wise (in)equality
        return cmp_('Eq', *[x if scalar_value(x) else index(x, k) for x in base[2:4]])
    if base[0] in ('tuple', 'list') and isconst(k) and isinstance(k[1], int) and not isinstance(k[1], bool):
        if -len(base[1]) <= k[1] < len(base[1]):
            return base[1][k[1]]
    if base[0] in ('dict', 'table') and isconst(k):
        for kk, v in base[1]:
            if kk == k[1]:
                return v
        return ('missing', k[1])
    if base[0] == 'map' and k[0] == 'lv' and k[1] == base[1]:
        return base[2]
    if base[0] == 'gamma':
        return gamma(base[1], index(base[2], k), index(base[3], k))
    if base[0] in ('div', 'mul') and _pointwise_key(k):
        # element k of an element-wise quotient / product (numbers are broadcast)
        parts = [x if scalar_value(x) else index(x, k) for x in (base[1:3] if base[0] == 'div' else base[1])]
        if base[0] == 'div':
            return div(parts[0], parts[1])
        out = parts[0]
        for p in parts[1:]:
            out = mul(out, p)
        return out
    if base[0] == 'call' and base[1] in ('minimum', 'maximum') and len(base[2]) == 2 and not base[3] and _pointwise_key(k):
        # np.minimum(a, b)[k] is the smaller of the two elements: the same normal form as np.min([a[k], b[k]])
        parts = [x if scalar_value(x) else index(x, k) for x in base[2]]
        return ('call', base[1][:3], (('tuple', sort_terms(parts)),), ())
    if base[0] == 'call' and base[1] == 'split' and len(base[2]) == 2 and not base[3] and k[0] == 'lin' and _front_index(k) and k[1] >= 1:
        # np.split(x, I)[j] for j >= 1 is the piece between consecutive split points: x[I[j-1]:I[j]]
        x, pts = base[2]
        return slice_(x, index(pts, sub(k, ('const', 1))), index(pts, k))
    if base[0] == 'slice' and base[4] == NONE:
        # X[a:b][i] == X[i + a] for an index counted from the front; X[a:-m][-j] == X[-j - m] from the back
        lo, hi = base[2], base[3]
        if _front_index(k) and (lo == NONE or _nonneg_const(lo)) and (hi == NONE or _neg_const(hi) or True):
            return index(base[1], k if lo == NONE else add(k, lo))
        if _neg_const(k) and (hi == NONE or _neg_const(hi)):
            return index(base[1], k if hi == NONE else add(k, hi))
    return ('idx', base, k)


def _pointwise_key(k):
    """a single position (loop variable or integer), as opposed to a mask / index array"""
    return k[0] == 'lv' or (k[0] == 'const' and isinstance(k[1], int) and not isinstance(k[1], bool)) or (k[0] == 'lin' and _front_index(k))


def _nonneg_const(t):
    return t[0] == 'const' and isinstance(t[1], int) and not isinstance(t[1], bool) and t[1] >= 0


def _neg_const(t):
    return t[0] == 'const' and isinstance(t[1], int) and not isinstance(t[1], bool) and t[1] < 0


def _front_index(k):
    """scalar index known to count from the front (loop variable, non-negative constant, or their sum)"""
    if k[0] == 'lv' or _nonneg_const(k):
        return True
    if k[0] == 'lin' and Fraction(k[1]).denominator == 1 and k[1] >= 0:
        return all(x[0] == 'lv' and c == 1 for x, c in k[2])
    if k[0] == 'lin' and Fraction(k[1]).denominator == 1 and len(k[2]) == 1 and k[2][0][1] == 1 and k[2][0][0][0] == 'lv':
        key = k[2][0][0][1]               # lv - c with lv ranging over range(a, ...), a >= c
        return key[0] == 'range' and _nonneg_const(key[1]) and key[3] == ('const', 1) and key[1][1] + k[1] >= 0
    return False


ATOM_LEN = {}        # atom name -> length term (filled by the rules that introduce array atoms)


def length(a):
    if a[0] == 'nd':
        a = a[1]
    tag = a[0]
    if tag in ('tuple', 'list', 'dict'):
        return ('const', len(a[1]))
    if tag == 'table':
        return a[2]
    if tag == 'col':
        return ('nrows', a[1])
    if tag == 'shaped' and a[2]:
        return ('const', a[2][0]) if isinstance(a[2][0], int) else a[2][0]
    if tag == 'call' and a[1] in ('swapaxes', 'reshape', 'flatten') or tag == 'idx':
        from .calls import dims_of
        d = dims_of(a)
        if d:
            return d[0]
    if tag == 'atom' and a[1] in ATOM_LEN:
        return ATOM_LEN[a[1]]
    if tag == 'keys' and len(a) > 1 and isinstance(a[1], tuple):
        return ('const', len(a[1]))
    if tag == 'arr':
        return length(a[1])
    if tag == 'gamma':
        la, lb = length(a[2]), length(a[3])
        if la == lb:
            return la                   # either branch has the same number of elements
        if la[0] != 'len' and lb[0] != 'len':
            return gamma(a[1], la, lb)
    if tag == 'map':
        return keylen(a[1])
    if tag == 'call' and a[1] in ('zeros', 'ones', 'full') and a[2] and a[2][0][0] != 'tuple':
        return a[2][0]
    if tag == 'call' and a[1] == 'split' and len(a[2]) == 2 and not a[3]:
        return add(length(a[2][1]), ('const', 1))          # np.split(x, I) has len(I) + 1 pieces
    if tag == 'call' and a[1] == 'append' and len(a[2]) == 2 and not a[3]:
        # np.append(x, y): as many elements as both together (a number counts as one)
        parts = [('const', 1) if (isnum(x) or is_scalar(x) or x in (NAN, PINF)) else length(x) for x in a[2]]
        if not any(p_[0] == 'len' and p_[1][0] in ('param', 'opaque') for p_ in parts):
            return add(parts[0], parts[1])
    if tag == 'call' and a[1] == 'diff' and len(a[2]) == 1 and not a[3]:
        n_ = length(a[2][0])
        if n_[0] != 'len' or n_[1] != a[2][0]:
            return add(n_, ('const', -1))            # one step fewer than samples (for a non-empty operand)
    if tag == 'call' and a[1] == 'interp' and a[2]:
        return length(a[2][0])                   # np.interp returns one value per query point
    if tag == 'call' and a[1] == 'arange' and len(a[2]) == 1 and not a[3]:
        return a[2][0]
    if tag == 'records':
        return length(a[1])
    if tag == 'lin' and a[2]:
        arrs = [x for x, c in a[2] if not is_scalar(x)]
        vec = [x for x in arrs if x[0] != 'param'] or arrs          # an element-wise sum is as long as its array operands (numbers are broadcast)
        return length(vec[0]) if vec else length(a[2][0][0])
    if tag in ('cmp0',):
        return length(a[2])
    if tag in ('not', 'binv'):
        return length(a[1])
    if tag in ('band', 'bor') and a[1]:
        # an element-wise and / or is as long as its operands (all the same length): the one that sorts first, negations aside
        ops = sort_terms({x[1] if x[0] == 'binv' else x for x in a[1]})
        return length(ops[0])
    if tag == 'cmp' and a[1] == 'Eq':
        return length(a[3] if scalar_value(a[2]) else a[2])
    if tag == 'slice' and a[4] == NONE:
        lo, hi = a[2], a[3]
        if (lo == NONE or _nonneg_const(lo)) and (hi == NONE or _neg_const(hi)):
            n = length(a[1])
            return lin(0, [(n, 1), (lo if lo != NONE else ('const', 0), -1), (hi if hi != NONE else ('const', 0), 1)])
        if hi[0] == 'gamma':
            sa_, sb_ = ('slice', a[1], lo, hi[2], NONE), ('slice', a[1], lo, hi[3], NONE)
            la, lb = length(sa_), length(sb_)
            if la != ('len', sa_) and lb != ('len', sb_):
                return gamma(hi[1], la, lb)
        if (lo == NONE or _nonneg_const(lo)) and hi[0] != 'const':
            # X[lo:H] with H known to be within the array (len(X) - H is a non-negative constant): H - lo elements
            d = lin(0, [(length(a[1]), 1), (hi, -1)])
            if isnum(d) and d[1] >= 0:
                return lin(0, [(hi, 1), (lo if lo != NONE else ('const', 0), -1)])
    if tag == 'idx' and is_intarr(a[2]) if len(a) > 2 else False:
        return length(a[2])
    if tag == 'idx' and len(a) > 2 and isinstance(a[2], tuple) and a[2] and a[2][0] == 'rowsel' and (_masklike(a[2][1]) or is_boolarr(a[2][1])):
        return call('count', (a[2][1],))              # the rows selected by a mask: as many as flags set (the row count of df[mask])
    return ('len', a)


def keylen(key):
    if key[0] == 'range' and key[1] == ('const', 0) and key[3] == ('const', 1):
        return key[2]
    if key[0] == 'range' and key[3] == ('const', 1):
        return sub(key[2], key[1])
    if key[0] in ('rows', 'over'):
        return length(key[1])
    return ('len', ('keyspace', key))


def slice_(base, lo, hi, step=NONE):
    if base[0] == 'nd':
        base = base[1]
    if lo == ('const', 0):
        lo = NONE
    if step == ('const', 1):
        step = NONE
    if lo == NONE and hi == NONE and step == NONE:
        return base
    if base[0] == 'lin' and (base[1] == 0 or any(not is_scalar(t) for t, c in base[2])):
        # (sum c_i x_i + k)[a:b:s] = sum c_i x_i[a:b:s] + k   (numbers are broadcast, not sliced)
        return lin(base[1], [(t if is_scalar(t) else slice_(t, lo, hi, step), c) for t, c in base[2]])
    if base[0] == 'cmp0' and not is_scalar(base[2]):
        return cmp_(base[1], slice_(base[2], lo, hi, step), ('const', 0))      # a slice of an element-wise comparison compares the slice
    if base[0] == 'binv':
        return binv(slice_(base[1], lo, hi, step))
    if base[0] == 'call' and base[1] == 'diff' and len(base[2]) == 1 and not base[3] and step == NONE and \
            (lo == NONE or _nonneg_index(lo)) and (hi == NONE or _nonneg_index(hi)):
        # steps a .. b-1 of x are the steps of the samples a .. b:  diff(x)[a:b] == diff(x[a:b+1])
        return ('call', 'diff', (slice_(base[2][0], lo, hi if hi == NONE else add(hi, ('const', 1))),), ())
    if base[0] in ('tuple', 'list') and all(x == NONE or (isconst(x) and isinstance(x[1], int)) for x in (lo, hi, step)):
        s = slice(*(None if x == NONE else x[1] for x in (lo, hi, step)))
        return (base[0], base[1][s])
    return ('slice', base, lo, hi, step)


def _nonneg_index(t):
    """an index counted from the front: a non-negative constant, a cyclepoint sample (element of a sample_ column / index array) or a sum of those"""
    if _nonneg_const(t):
        return True
    if t[0] == 'idx' and is_intarr(t[1]):
        return True
    if t[0] == 'lv':
        return True
    if t[0] == 'lin' and t[1] >= 0:
        return all(c > 0 and _nonneg_index(x) for x, c in t[2])
    return False


FLIP = {'Lt': 'Gt', 'LtE': 'GtE'}
_NOVAL = object()


def constval(t):
    """python value of a constant term (constants and tuples/lists of constants), else _NOVAL"""
    if t[0] == 'const':
        v = t[1]
        return ('num', Fraction(v)) if isnum(t) else (type(v).__name__, v)
    if t[0] in ('tuple', 'list'):
        vs = [constval(x) for x in t[1]]
        if any(v is _NOVAL for v in vs):
            return _NOVAL
        return ('seq', tuple(vs))
    return _NOVAL



def _numericish(t):
    if t[0] == 'const':
        return isnum(t) or t[1] in ('inf', '-inf', 'nan')
    return t[0] not in ('tuple', 'list', 'dict', 'table', 'and', 'or', 'not', 'cmp', 'cmp0', 'keys', 'opaque', 'missing')


def _surely_different(a, b):
    """two container displays that cannot compare equal: different lengths / key sets, or some position holding two different constants"""
    if a[0] != b[0] or a[0] not in ('dict', 'list', 'tuple'):
        return isconst(a) and isconst(b) and constval(a) is not _NOVAL and constval(b) is not _NOVAL and constval(a) != constval(b)
    if a[0] == 'dict':
        da, db = dict(a[1]), dict(b[1])
        if len(da) != len(a[1]) or len(db) != len(b[1]):
            return False
        if set(da) != set(db):
            return all(isinstance(k, str) for k in list(da) + list(db))
        return any(_surely_different(da[k], db[k]) for k in da)
    if len(a[1]) != len(b[1]):
        return True
    return any(_surely_different(x, y) for x, y in zip(a[1], b[1]))


def _is_count(t):
    return t[0] in ('len', 'nrows') or (t[0] == 'call' and t[1] == 'count')


def cmp_(op, a, b):
    if op in FLIP:
        op, a, b = FLIP[op], b, a
    # a count is a non-negative integer: n > 0, n >= 1 are "not n == 0"; 0 >= n, 1 > n are "n == 0"
    if (op == 'Gt' and _is_count(a) and b == ('const', 0)) or (op == 'GtE' and _is_count(a) and b == ('const', 1)):
        return not_(cmp_('Eq', a, ('const', 0)))
    if (op == 'GtE' and _is_count(b) and a == ('const', 0)) or (op == 'Gt' and _is_count(b) and a == ('const', 1)):
        return cmp_('Eq', b, ('const', 0))
    if op in ('Gt', 'GtE', 'Eq', 'NotEq') and isnum(a) and isnum(b):
        r = {'Gt': a[1] > b[1], 'GtE': a[1] >= b[1], 'Eq': a[1] == b[1], 'NotEq': a[1] != b[1]}[op]
        return ('const', r)
    if op in ('Eq', 'NotEq', 'Is', 'IsNot') and isconst(a) and isconst(b):
        r = (a[1] == b[1]) and (type(a[1]) == type(b[1]) or (isnum(a) and isnum(b)))
        return ('const', r if op in ('Eq', 'Is') else not r)
    if op in ('Is', 'IsNot') and (a == NONE or b == NONE):
        other = b if a == NONE else a
        if other[0] in ('tuple', 'list', 'dict', 'table', 'lin', 'mul', 'div', 'arr', 'map', 'cmp', 'cmp0', 'call') and other[0] != 'call':
            return ('const', op == 'IsNot')
    if op in ('Gt', 'GtE') and _numericish(a) and _numericish(b) and not (isconst(a) and not isnum(a)) and not (isconst(b) and not isnum(b)):
        return ('cmp0', op, lin(0, [(a, 1), (b, -1)]))
    if op in ('Eq', 'NotEq') and (a[0] == 'binv') != (b[0] == 'binv') and is_boolarr(a[1] if a[0] == 'binv' else a) and is_boolarr(b[1] if b[0] == 'binv' else b):
        # element-wise on boolean arrays:  (~x == y)  is  (x != y)
        x, y = (a[1], b) if a[0] == 'binv' else (a, b[1])
        return cmp_('NotEq' if op == 'Eq' else 'Eq', x, y)
    if op in ('Eq', 'NotEq') and a[0] == b[0] and a[0] in ('dict', 'list', 'tuple') and _surely_different(a, b):
        return ('const', op == 'NotEq')
    if op in ('Eq', 'NotEq', 'Is', 'IsNot') and key(a) > key(b):
        a, b = b, a
    if op in ('NotEq', 'IsNot', 'NotIn'):
        # one canonical polarity: x != y is not (x == y), so `a if c is None else b` and `b if c is not None else a` coincide
        pos = cmp_({'NotEq': 'Eq', 'IsNot': 'Is', 'NotIn': 'In'}[op], a, b)
        return not_(pos)
    if op in ('Eq', 'NotEq') and constval(a) is not _NOVAL and constval(b) is not _NOVAL:
        r = constval(a) == constval(b)
        return ('const', r if op == 'Eq' else not r)
    if op in ('In', 'NotIn'):
        if isconst(a) and isconst(b) and isinstance(a[1], str) and isinstance(b[1], str):
            r = a[1] in b[1]                       # substring test on two literal strings
            return ('const', r if op == 'In' else not r)
        if constval(a) is not _NOVAL and b[0] in ('tuple', 'list') and all(constval(x) is not _NOVAL for x in b[1]):
            r = any(constval(x) == constval(a) for x in b[1])
            return ('const', r if op == 'In' else not r)
        if isconst(a) and b[0] == 'keys' and b[1] is not None:
            r = a[1] in b[1]
            return ('const', r if op == 'In' else not r)
        if b[0] in ('tuple', 'list'):
            b = (b[0], sort_terms(b[1]))
    return ('cmp', op, a, b)


def not_(t):
    if isconst(t):
        return ('const', not t[1])
    if t[0] == 'not':
        return t[1]
    if t[0] == 'cmp' and t[1] in ('NotEq', 'IsNot', 'NotIn'):          # (not produced by cmp_, kept for safety)
        return ('cmp', {'NotEq': 'Eq', 'IsNot': 'Is', 'NotIn': 'In'}[t[1]], t[2], t[3])
    # NaN-sensitive: not (a > b) is NOT (a <= b)
    return ('not', t)


def and_(ts):
    out = []
    for t in ts:
        if t == TRUE:
            continue
        if t == FALSE:
            return FALSE
        if t[0] == 'and':
            out.extend(t[1])
        else:
            out.append(t)
    # x == k1 excludes x == k2 for two different constants: `x == k1 and not (x == k2)` is `x == k1`; `x == k1 and x == k2` is false
    eqs = {}
    for t in out:
        if t[0] == 'cmp' and t[1] == 'Eq' and (isconst(t[2]) != isconst(t[3])):
            x_, k_ = (t[3], t[2]) if isconst(t[2]) else (t[2], t[3])
            if x_ in eqs and eqs[x_] != k_ and type(eqs[x_][1]) == type(k_[1]):
                return FALSE
            eqs.setdefault(x_, k_)
    if eqs:
        def redundant(t):
            if t[0] == 'not' and t[1][0] == 'cmp' and t[1][1] == 'Eq' and (isconst(t[1][2]) != isconst(t[1][3])):
                x_, k_ = (t[1][3], t[1][2]) if isconst(t[1][2]) else (t[1][2], t[1][3])
                return x_ in eqs and eqs[x_] != k_ and type(eqs[x_][1]) == type(k_[1])
            return False
        out = [t for t in out if not redundant(t)]
    out = sort_terms(set(out))
    if not out:
        return TRUE
    return out[0] if len(out) == 1 else ('and', out)


def or_(ts):
    out = []
    for t in ts:
        if t == FALSE:
            continue
        if t == TRUE:
            return TRUE
        if t[0] == 'or':
            out.extend(t[1])
        else:
            out.append(t)
    # absorption: A or (not A and B) == A or B
    outs = set(out)
    changed = True
    while changed:
        changed = False
        for t in list(outs):
            if t[0] == 'and':
                rest = [x for x in t[1] if not_(x) not in outs]
                if len(rest) != len(t[1]):
                    outs.discard(t)
                    outs.add(and_(rest))
                    changed = True
                    break
    if TRUE in outs:
        return TRUE
    out = sort_terms(outs - {FALSE})
    if not out:
        return FALSE
    return out[0] if len(out) == 1 else ('or', out)


def _all_true(t):
    """np.ones(n, dtype=bool): the neutral element of an element-wise conjunction"""
    t = t[1] if t[0] == 'nd' else t
    if t[0] != 'call' or t[1] != 'ones':
        return False
    dt = dict(t[3]).get('dtype', t[2][1] if len(t[2]) > 1 else None)
    return dt in (('const', 'bool'), ('builtin', 'bool'))


def band(ts):
    out = []
    for t in ts:
        if t[0] == 'band':
            out.extend(t[1])
        else:
            out.append(t)
    if len(out) > 1 and any(not _all_true(t) for t in out):
        out = [t for t in out if not _all_true(t)]
    out = sort_terms(set(out))
    return out[0] if len(out) == 1 else ('band', out)


def bor(ts):
    out = []
    for t in ts:
        if t[0] == 'bor':
            out.extend(t[1])
        else:
            out.append(t)
    out = sort_terms(set(out))
    return out[0] if len(out) == 1 else ('bor', out)


def binv(t):
    if t[0] == 'binv':
        return t[1]
    if t[0] in ('bor', 'band') and t[1] and all(x[0] == 'binv' for x in t[1]):
        return (band if t[0] == 'bor' else bor)([x[1] for x in t[1]])          # De Morgan on element-wise conditions
    if t[0] == 'arr' and t[2] and all(isconst(v) and isinstance(v[1], (bool, int)) and v[1] in (0, 1, True, False) for _k, v, _g in t[2]) and is_boolarr(t[1]):
        # inverting a boolean array after constant stores == the same stores, inverted, on the inverted array
        return ('arr', binv(t[1]), tuple((k, ('const', not bool(v[1])), g) for k, v, g in t[2]))
    if t[0] == 'nd' and t[1][0] in ('list', 'tuple') and t[1][1] and all(isconst(e) and isinstance(e[1], bool) for e in t[1][1]):
        return ('nd', (t[1][0], tuple(('const', not e[1]) for e in t[1][1])))        # ~ of an explicit boolean array
    if isconst(t) and isinstance(t[1], bool):
        return ('const', not t[1])
    return ('binv', t)


def _truthy(t):
    """t is a truth value (a comparison, a connective, True / False)"""
    return (isconst(t) and isinstance(t[1], bool)) or t[0] in ('cmp', 'and', 'or', 'not', 'strtest')


def gamma(c, a, b):
    # found-flag elimination: `found = False; ret = None; for ..: if p: ret = X; found = True; break` then `ret if found else D` is the first-match search
    # started from D
    if c[0] == 'loopout' and a[0] == 'loopout' and len(c) == 5 and len(a) == 5 and c[1] == a[1] and c[4] == a[4] and c[4] != FALSE and c[2] == FALSE \
            and c[3][0] == 'gamma' and c[3][1] == c[4] and c[3][2] == TRUE and c[3][3][0] == 'carried' \
            and a[3][0] == 'gamma' and a[3][1] == a[4] and a[3][3][0] == 'carried' and a[3][3][4] == a[2]:
        me_a = a[3][3]
        me_new = ('carried', 0, me_a[2], me_a[3], b)
        if not any(x == me_a for x in walk(a[3][2])):
            return ('loopout', a[1], b, ('gamma', a[4], a[3][2], me_new), a[4])
    if c == TRUE:
        return a
    if c == FALSE:
        return b
    if a == b:
        return a
    if c[0] == 'not':
        return gamma(c[1], b, a)
    if c[0] == 'cmp' and c[1] in ('Is', 'Eq') and a == NONE and ((c[2] == a and c[3] == b) or (c[3] == a and c[2] == b)):
        return b                        # `None if x is None else x` is x
    if c[0] == 'and' and len(c[1]) > 1 and all(x[0] == 'not' for x in c[1]):
        return gamma(or_([x[1] for x in c[1]]), b, a)           # De Morgan: `x if (not p and not q) else y` is `y if (p or q) else x`
    # a conditional between two dictionaries with the same keys is the dictionary of the conditionals (d[k] = v under a condition)
    if a[0] == 'dict' and b[0] == 'dict' and len(a) == 2 and len(b) == 2 and [k for k, _ in a[1]] == [k for k, _ in b[1]]:
        return ('dict', tuple((k, gamma(c, va, vb)) for (k, va), (_, vb) in zip(a[1], b[1])))
    # a conditional between truth values is a formula
    if _truthy(a) and _truthy(b) and (isconst(a) or isconst(b)):
        if a == TRUE:
            return or_([c, b])
        if a == FALSE:
            return and_([not_(c), b])
        if b == TRUE:
            return or_([not_(c), a])
        if b == FALSE:
            return and_([c, a])
    if a[0] == 'gamma' and a[1] == c:
        a = a[2]
    if b[0] == 'gamma' and b[1] == c:
        b = b[3]
    if a == b:
        return a
    if b[0] == 'gamma' and b[2] == a:
        return gamma(or_([c, b[1]]), a, b[3])
    if a[0] == 'gamma' and a[3] == b:
        return gamma(and_([c, a[1]]), a[2], b)
    # "nan if all the candidates are nan else nanmin(some of them)"  ==  nanmin(some of them)
    if a == NAN and c[0] == 'call' and c[1] == 'all' and len(c[2]) == 1 and c[2][0][0] == 'call' and c[2][0][1] == 'isnan' \
            and b[0] == 'call' and b[1] in ('nanmin', 'nanmax') and len(b[2]) == 1 and b[2][0][0] == 'tuple' \
            and c[2][0][2] and c[2][0][2][0][0] == 'tuple' and set(b[2][0][1]) <= set(c[2][0][2][0][1]):
        return b
    return ('gamma', c, a, b)


def _conj(g):
    return set(g[1]) if g[0] == 'and' else set() if g == TRUE else {g}


def arr_store(cur, k, v, g):
    """array term after the store  cur[k] = v  executed under guard g  (stores keep program order)"""
    # index given as the positions of a boolean mask == the mask itself
    if k[0] == 'call' and k[1] == 'flatnonzero' and len(k[2]) == 1:
        k = k[2][0]
    # x[:1] = v  /  x[-1:] = v  store into the first / last element when there is one: x[0] = v / x[-1] = v under len(x) > 0
    if k in (('sl', NONE, ('const', 1), NONE), ('sl', ('const', 0), ('const', 1), NONE), ('sl', ('const', -1), NONE, NONE)) and (isconst(v) or is_scalar(v)):
        base_ = cur[1] if cur[0] == 'arr' else cur
        k = ('const', 0) if k[2] == ('const', 1) else ('const', -1)
        g = and_(list(_conj(g)) + [cmp_('Gt', length(base_), ('const', 0))])
    # x[:] = values (as many as x has elements): every element replaced, the array is the values (element by element, like a loop storing values[i] at i)
    if k == ('sl', NONE, NONE, NONE) and g == TRUE and not is_scalar(v) and not isconst(v):
        base_ = cur[1] if cur[0] == 'arr' else cur
        lb, lv_ = length(base_), length(v)
        if lb == lv_ and lb[0] != 'len':
            return v
    # "if mask.any(): x[mask] = v"  ==  "x[mask] = v"
    cj = _conj(g)
    for c in list(cj):
        if c[0] == 'call' and c[1] == 'any' and len(c[2]) == 1 and c[2][0] == k:
            cj.discard(c)
            g = and_(cj)
    init, stores = (cur[1], cur[2]) if cur[0] == 'arr' else (cur, ())
    if stores and stores[-1][0] == k and stores[-1][2] == g and not any(x == k for x in walk(v) if isinstance(x, tuple)):
        stores = stores[:-1]                 # x[k] = a; x[k] = b  (same place, same condition): the later store is the one that stays
        cur = ('arr', init, stores) if stores else init
    merged = False
    while stores:
        k0, v0, g0 = stores[-1]
        if k0 != k:
            break
        a, b = _conj(g0), _conj(g)
        da, db = a - b, b - a
        if len(da) == 1 and len(db) == 1:
            (x,), (y,) = da, db
            if not_(x) == y or not_(y) == x:
                # if/else (and, repeatedly, if/elif/else chains) storing to the same place: one store of the selected value
                stores, v, g = stores[:-1], gamma(x, v0, v), and_(a & b)
                merged = True
                continue
        if g0 != TRUE and (not_(g0) == g or not_(g) == g0):
            # the same place stored under a compound condition and under its negation (a guarded store followed by `continue`, then the fallback store)
            stores, v, g = stores[:-1], gamma(g0, v0, v), TRUE
            merged = True
            continue
        break
    if merged:
        cur = ('arr', init, stores) if stores else init
        init, stores = (cur[1], cur[2]) if cur[0] == 'arr' else (cur, ())
    if False:
        pass
    stores = list(stores) + [(k, v, g)]
    # stores of the SAME value under the SAME guard commute (even if the indices alias): canonical order
    i = len(stores) - 1
    while i > 0 and stores[i - 1][1] == v and stores[i - 1][2] == g and key(stores[i - 1][0]) > key(k):
        stores[i - 1], stores[i] = stores[i], stores[i - 1]
        i -= 1
    return ('arr', init, tuple(stores))


def merge_arrs(a, b):
    """join of two branches that only added (guarded) stores to the same array"""
    ia, sa = (a[1], a[2]) if a[0] == 'arr' else (a, ())
    ib, sb = (b[1], b[2]) if b[0] == 'arr' else (b, ())
    if ia != ib or (not sa and not sb):
        return None
    n = 0
    while n < len(sa) and n < len(sb) and sa[n] == sb[n]:
        n += 1
    out = ('arr', ia, sa[:n]) if n else ia
    for k, v, g in sa[n:] + sb[n:]:
        out = arr_store(out, k, v, g)
    return out


def call(name, args, kwargs=()):
    args = tuple(args)
    kwargs = tuple(sorted(kwargs.items())) if isinstance(kwargs, dict) else tuple(kwargs)
    # homogeneity: f(k*x) = k*f(x)
    if name in HOMOGENEOUS_CALLS and len(args) >= 1 and args[0][0] == 'lin' and args[0][1] == 0 and len(args[0][2]) == 1:
        (x, k), = args[0][2]
        return lin(0, [(('call', name, (x,) + args[1:], kwargs), k)])
    if name in SIGN_SWAP_CALLS and len(args) >= 1 and args[0][0] == 'lin' and args[0][1] == 0 and len(args[0][2]) == 1:
        (x, k), = args[0][2]
        if Fraction(k) > 0 and name in ('argmax', 'argmin'):
            return ('call', name, (x,) + args[1:], kwargs)
        if Fraction(k) < 0 and name in ('argmax', 'argmin'):
            return ('call', SIGN_SWAP_CALLS[name], (x,) + args[1:], kwargs)
    if name in EVEN_HOMOGENEOUS_CALLS and len(args) >= 1 and args[0][0] == 'lin' and args[0][1] == 0 and len(args[0][2]) == 1:
        (x, k), = args[0][2]
        inner = ('call', name, (x,) + args[1:], kwargs)
        return inner if abs(Fraction(k)) == 1 else lin(0, [(inner, abs(Fraction(k)))])
    if name in SIGN_INVARIANT_CALLS and len(args) >= 1 and args[0][0] == 'lin' and args[0][1] == 0 and len(args[0][2]) == 1 \
            and args[0][2][0][1] == -1:
        return ('call', name, (args[0][2][0][0],) + args[1:], kwargs)
    if name == 'count' and len(args) == 1 and not kwargs and _masklike(args[0]):
        # rows kept by a second selection on an already selected table: count(m2 over X[m1]) == count(m1 & m2 over X)
        inner = {x[2][1] for x in walk(args[0]) if x[0] == 'idx' and isinstance(x[2], tuple) and x[2] and x[2][0] == 'rowsel' and _masklike(x[2][1])}
        if len(inner) == 1:
            m1 = next(iter(inner))
            m = _compose_masks(m1, args[0], wrap='rowsel')
            if m is not None and not any(x[0] == 'idx' and isinstance(x[2], tuple) and x[2] and x[2][0] == 'rowsel' for x in walk(m)):
                return ('call', 'count', (m,), ())
    if name == 'append' and len(args) == 2 and args[1][0] == 'slice' and args[1][2:] == (('const', 1), NONE, NONE) \
            and args[0] == ('idx', args[1][1], ('const', 0)):
        return args[1][1]
    return ('call', name, args, kwargs)


def table(cols, nrows):
    return ('table', tuple(sorted(dict(cols).items())), nrows)


def tcols(t):
    return dict(t[1])


# ------------------------------------------------------------------------------------------ traversal
def walk(t):
    """All sub-terms (pre-order)."""
    stack = [t]
    while stack:
        x = stack.pop()
        if isinstance(x, tuple):
            if x and isinstance(x[0], str):
                yield x
            stack.extend(y for y in x if isinstance(y, tuple))


def subst(t, f):
    """Bottom-up rewrite: f(term) -> replacement or None.  Re-normalises arithmetic nodes."""
    memo = {}

    def go(x):
        if not isinstance(x, tuple):
            return x
        if len(x) == 2 and x[0] == 'const':
            # never memoised: ('const', 1) and ('const', True) are equal as dictionary keys, and a rewrite that produces True must not turn a 1 into True
            r = f(x)
            return x if r is None else r
        if x in memo:
            return memo[x]
        if x and isinstance(x[0], str):
            y = tuple(go(e) for e in x)
            y = renorm(y)
            r = f(y)
            y = y if r is None else r
        else:
            y = tuple(go(e) for e in x)
        memo[x] = y
        return y
    return go(t)


def renorm(y):
    tag = y[0]
    try:
        if tag == 'lin':
            return lin(y[1], list(y[2]))
        if tag == 'mul':
            out = ('const', 1)
            for f_ in y[1]:
                out = mul(out, f_)
            return out
        if tag == 'div':
            return div(y[1], y[2])
        if tag == 'idx':
            return index(y[1], y[2])
        if tag == 'slice':
            return slice_(y[1], y[2], y[3], y[4])
        if tag == 'cmp0':
            return cmp_(y[1], y[2], ('const', 0))
        if tag == 'cmp':
            return cmp_(y[1], y[2], y[3])
        if tag == 'and':
            return and_(y[1])
        if tag == 'or':
            return or_(y[1])
        if tag == 'band':
            return band(y[1])
        if tag == 'bor':
            return bor(y[1])
        if tag == 'gamma':
            return gamma(y[1], y[2], y[3])
        if tag == 'not':
            return not_(y[1])
        if tag == 'arr' and len(y) == 3:
            # stores whose guard has been decided: a false guard never stores, the rest are replayed (so that complementary stores merge)
            cur = y[1]
            for k_, v_, g_ in y[2]:
                if g_ == FALSE:
                    continue
                cur = arr_store(cur, k_, v_, g_)
            return cur
        if tag == 'call':
            if y[1] in ('min', 'max', 'nanmin', 'nanmax') and len(y[2]) == 1 and y[2][0][0] in ('tuple', 'list'):
                return ('call', y[1], ((y[2][0][0], sort_terms(y[2][0][1])),), y[3])
            return call(y[1], y[2], y[3])
        if tag == 'table':
            return ('table', tuple(sorted(y[1])), y[2])
        if tag == 'dict':
            return ('dict', tuple(sorted(y[1], key=lambda kv: repr(kv[0]))))
    except Exception:
        return y
    return y


def strip_nd(t):
    """drop the transparent list->ndarray wrappers before comparing values"""
    return subst(t, lambda x: x[1] if x[0] == 'nd' else None)


def parity_slice(fm):
    """[f(X[i]) for i, _ in enumerate(X) if i % 2 == c]  ==  f(X[c::2])   (element-wise f)"""
    if fm[0] != 'filtermap':
        return None
    k, cond, elt = fm[1], fm[2], fm[3]
    if k[0] != 'range' or k[1] != ('const', 0) or k[3] != ('const', 1):
        return None
    lvs = {x for x in walk(cond) if x[0] == 'lv' and x[1] == k}
    if len(lvs) != 1:
        return None
    lv = next(iter(lvs))
    c = None
    for cc in (0, 1):
        if cond == cmp_('Eq', ('mod', lv, ('const', 2)), ('const', cc)):
            c = cc
        if cond == not_(cmp_('Eq', ('mod', lv, ('const', 2)), ('const', cc))):
            c = 1 - cc                      # an index is odd exactly when it is not even
    m2 = ('mod', lv, ('const', 2))
    if cond == m2:
        c = 1                               # truthiness of i % 2: the odd positions
    if cond == not_(m2):
        c = 0
    if c is None:
        return None
    srcs = {x for x in walk(elt) if x[0] == 'idx' and x[2] == lv}
    if len(srcs) != 1:
        return None
    src = next(iter(srcs))
    if length(src[1]) != k[2]:
        return None
    out = subst(elt, lambda x: slice_(src[1], ('const', c), NONE, ('const', 2)) if x == src else None)
    if any(x == lv for x in walk(out)):
        return None
    return out


def stride_slice(m):
    """[f(X[i]) for i in range(c, len(X), s)]  ==  f(X[c::s])   (element-wise f, constant start and stride)"""
    if m[0] != 'map' or m[1][0] != 'range':
        return None
    k, elt = m[1], m[2]
    if not (_nonneg_const(k[1]) and _nonneg_const(k[3]) and k[3][1] >= 2):
        return None
    lv = next((x for x in walk(elt) if x[0] == 'lv' and x[1] == k), None)
    if lv is None:
        return None
    srcs = {x for x in walk(elt) if x[0] == 'idx' and x[2] == lv}
    if len(srcs) != 1:
        return None
    src = next(iter(srcs))
    if length(src[1]) != k[2]:
        return None
    out = subst(elt, lambda x: slice_(src[1], k[1], NONE, k[3]) if x == src else None)
    if any(x == lv for x in walk(out)):
        return None
    return out


def contains(t, pred):
    return any(pred(x) for x in walk(t))


def opaque_in(t):
    return [x for x in walk(t) if x[0] == 'opaque']


# ------------------------------------------------------------------------------------------ printing
def show(t, depth=0):
    if not isinstance(t, tuple) or not t or not isinstance(t[0], str):
        return repr(t)
    tag = t[0]
    if len(t) == 1:
        return f'<{tag}>'
    if tag == 'const':
        return repr(t[1]) if not isinstance(t[1], Fraction) else str(t[1])
    if tag == 'param':
        return t[1]
    if tag == 'atom':
        return t[1]
    if tag == 'col':
        return f'{t[1]}.{t[2]}'
    if tag == 'nrows':
        return f'nrows({t[1]})'
    if tag == 'lv':
        return f'${_lvname(t)}'
    if tag == 'lin':
        parts = []
        for x, c in t[2]:
            s = show(x)
            if c == 1:
                parts.append(f'+ {s}')
            elif c == -1:
                parts.append(f'- {s}')
            else:
                parts.append(f"{'+' if c > 0 else '-'} {abs(c)}*{s}")
        if t[1] != 0:
            parts.append(f"{'+' if t[1] > 0 else '-'} {abs(t[1])}")
        s = ' '.join(parts)
        return '(' + (s[2:] if s.startswith('+ ') else s) + ')'
    if tag == 'mul':
        return '(' + ' * '.join(show(x) for x in t[1]) + ')'
    if tag in ('div', 'floordiv', 'mod', 'pow'):
        return f"({show(t[1])} {dict(div='/', floordiv='//', mod='%', pow='**')[tag]} {show(t[2])})"
    if tag == 'idx':
        return f'{show(t[1])}[{show(t[2])}]'
    if tag == 'slice':
        f = lambda x: '' if x == NONE else show(x)
        return f'{show(t[1])}[{f(t[2])}:{f(t[3])}' + (f':{f(t[4])}' if t[4] != NONE else '') + ']'
    if tag == 'cmp0':
        return f"({show(t[2])} {dict(Gt='>', GtE='>=')[t[1]]} 0)"
    if tag == 'cmp':
        sym = dict(Gt='>', GtE='>=', Eq='==', NotEq='!=', Is='is', IsNot='is not', In='in', NotIn='not in')[t[1]]
        return f'({show(t[2])} {sym} {show(t[3])})'
    if tag in ('and', 'or', 'band', 'bor'):
        j = dict(band=' & ', bor=' | ').get(tag, f' {tag} ')
        return '(' + j.join(show(x) for x in t[1]) + ')'
    if tag == 'not':
        return f'not {show(t[1])}'
    if tag == 'binv':
        return f'~{show(t[1])}'
    if tag == 'call':
        a = [show(x) for x in t[2]] + [f'{k}={show(v)}' for k, v in t[3]]
        return f"{t[1]}({', '.join(a)})"
    if tag == 'gamma':
        return f'({show(t[2])} if {show(t[1])} else {show(t[3])})'
    if tag in ('tuple', 'list'):
        o, c = ('(', ')') if tag == 'tuple' else ('[', ']')
        return o + ', '.join(show(x) for x in t[1]) + c
    if tag == 'dict':
        if not isinstance(t[1], tuple) or any(not (isinstance(kv, tuple) and len(kv) == 2) for kv in t[1]):
            return 'dict<' + ', '.join(show(x) if isinstance(x, tuple) else repr(x) for x in (t[1] if isinstance(t[1], tuple) else (t[1],))) + '>'
        return '{' + ', '.join(f'{k!r}: {show(v)}' for k, v in t[1]) + '}'
    if tag == 'table':
        names = {v[1] for k, v in t[1] if v[0] == 'col' and v[2] == k}
        if len(names) == 1 and all(v[0] == 'col' and v[2] == k for k, v in t[1]):
            return f'{next(iter(names))}<{len(t[1])} cols>'
        return 'table{' + ', '.join(f'{k}: {show(v)}' for k, v in t[1]) + '}'
    if tag == 'arr':
        return f"arr<{show(t[1])}; " + '; '.join(f'[{show(i)}] <- {show(v)}' + ('' if g == TRUE else f' if {show(g)}') for i, v, g in t[2]) + '>'
    if tag == 'map':
        return f'map<{_keyname(t[1])}: {show(t[2])}>'
    if tag == 'filtermap':
        return f'map<{_keyname(t[1])} if {show(t[2])}: {show(t[3])}>'
    if tag == 'loopout':
        return f'loop<{_keyname(t[1])}; init {show(t[2])}; step {show(t[3])}' + ('' if t[4] == FALSE else f'; break if {show(t[4])}') + '>'
    if tag == 'carried':
        return f'@acc{t[1]}<{brief(t[4], 40)}>' if len(t) > 4 else f'@acc{t[1]}'
    if tag == 'first':
        return f'first<{_keyname(t[1])} if {show(t[2])}: {show(t[3])}>'
    if tag == 'opaque':
        return f'?<{t[1]}>'
    if tag == 'nd':
        return show(t[1])
    return tag + '(' + ', '.join(show(x) if isinstance(x, tuple) else repr(x) for x in t[1:]) + ')'


def _keyname(k):
    if isinstance(k, tuple) and k and k[0] == 'range':
        return f'range({show(k[1])},{show(k[2])})'
    if isinstance(k, tuple) and k and k[0] == 'over' and isinstance(k[1], tuple) and k[1] and k[1][0] in ('map', 'filtermap'):
        return f'over({show(k[1])})'
    if isinstance(k, tuple) and k and k[0] in ('over', 'rows', 'items', 'keysof'):
        return f'{k[0]}({show(k[1]) if isinstance(k[1], tuple) else k[1]})'
    if isinstance(k, tuple) and k and k[0] in ('zip', 'product', 'nest'):
        return f'{k[0]}(' + ', '.join(_keyname(x) for x in k[1]) + ')'
    return show(k) if isinstance(k, tuple) and k and isinstance(k[0], str) else repr(k)


def _lvname(t):
    return f'{_keyname(t[1])}#{t[2]}'


def brief(t, n=160):
    s = show(t)
    return s if len(s) <= n else s[:n - 3] + '...'


def first_diff(a, b, depth=0):
    """smallest differing pair of sub-terms (for diagnosable reports)"""
    if a == b:
        return None
    if isinstance(a, tuple) and isinstance(b, tuple) and len(a) == len(b) and a and b and (not isinstance(a[0], str) or a[0] == b[0]) and depth < 60:
        diffs = [(x, y) for x, y in zip(a, b) if x != y]
        if diffs:
            d = first_diff(diffs[0][0], diffs[0][1], depth + 1)
            if d is not None:
                return d
    return (a, b)


def anonymise_lv(t):
    """replace the description of what each bound variable ranges over by its nesting depth only"""
    return subst(t, lambda x: ('lv', 'K', x[2]) if x[0] == 'lv' else ('carried', x[1], 'K', x[3]) + x[4:] if x[0] == 'carried' else None)
