"""L2 symbolic evaluation of the repository's functions into normal-form terms (sa/terms.py).

A forward abstract interpreter over ``ast``: every variable is mapped to a term; option parameters are
bound per *scenario* and conditions on them are constant-folded; data-dependent conditions become
``gamma`` terms / guards; loops are summarised once with bound loop variables; intra-package callees are
inlined; external callees become uninterpreted ``call`` terms (a few numpy/pandas operations are
modelled, see ``MODELS``) and are recorded in an ordered trace.  Nothing is executed.
"""
import ast
import copy
import os
from . import terms as T
from .terms import C, Cdec, NONE, TRUE, FALSE
from .srcmodel import AnalysisError

FALL, RAISE, BREAK, CONTINUE = 'fall', 'raise', 'break', 'continue'


class Ret:
    def __init__(self, term):
        self.term = term


class RaisedInCallee(Exception):
    """an inlined callee raises on every path: the calling statement does not complete"""


class Ctx:
    """State shared by all frames of one symbolic run."""

    def __init__(self, model, overrides=None, kinds=None, max_depth=12, inline=True, no_inline=()):
        self.model = model
        self.overrides = overrides or {}
        self.kinds = kinds or {}          # param name -> python kind for isinstance folding
        self.trace = []                   # ordered events (dicts)
        self.raises = []                  # (exc name, guard term, where)
        self.unmodelled = set()           # names of external calls without a model entry
        self.opaque = []                  # (text, where)
        self.consulted = set()            # model-table entries consulted
        self.inlined = set()              # qualified names of inlined callees
        self.heap = {}                    # object id -> {'cls': qual, 'attrs': {}}
        self.max_depth = max_depth
        self.inline = inline
        self.lambdas = {}                 # key -> (ast.Lambda, captured environment, module)
        self.inline_only = None           # optional predicate on Func: only these callees are followed, every other package call stays a call
        self.no_inline = set(no_inline)
        self.counter = 0
        self.warnings = []
        self.frames = []
        self.facts = {}                   # scenario facts: term -> constant (e.g. ('ndim', sigs) -> 2)

    # a specification run may call functions of the analysed package: they resolve through ``fallback`` and are
    # never inlined (uninterpreted, canonical bound-parameter form)
    fallback = None

    def lookup_func(self, qual):
        if qual in self.model.funcs:
            return self.model.funcs[qual]
        return self.fallback.funcs[qual]

    def is_foreign(self, qual):
        return qual not in self.model.funcs

    def foreign(self, dotted):
        fb = self.fallback
        if fb is None or not dotted.startswith(fb.pkg + '.'):
            return None
        mod, name = dotted.rsplit('.', 1)
        if mod in fb.mods:
            r = fb.resolve(mod, name)
            if isinstance(r, str) and r in fb.funcs:
                return r
        return None

    def fresh(self, prefix='o'):
        self.counter += 1
        return f'{prefix}{self.counter}'

    def event(self, kind, name, args=(), kwargs=(), guard=TRUE, loops=(), where='', extra=None):
        e = {'kind': kind, 'name': name, 'args': tuple(args), 'kwargs': tuple(sorted(kwargs.items())) if isinstance(kwargs, dict) else tuple(kwargs),
             'guard': guard, 'loops': tuple(loops), 'where': where}
        e['perm'] = tuple(self.frames[-1].perm) if self.frames else ()     # conditions established by earlier guards (early return / raise)
        if extra:
            e.update(extra)
        self.trace.append(e)
        return e


# names whose semantics the normaliser / rules rely on (everything else external is "unmodelled":
# still an uninterpreted function, but a differing normal form that contains one is reported as
# unresolved rather than as a violation)
MODELLED = {
    'zeros', 'ones', 'array', 'asarray', 'append', 'diff', 'mean', 'sum', 'median', 'min', 'max', 'nanmin', 'nanmax',
    'argmax', 'argmin', 'isnan', 'where', 'where0', 'flatnonzero', 'nonzero0', 'arange', 'abs', 'ceil', 'floor', 'interp', 'unique',
    'logical_and', 'logical_or', 'logical_not', 'pad', 'shape', 'swapaxes', 'reshape', 'flatten', 'tolist', 'len', 'int', 'float',
    'rank', 'astype', 'any', 'all', 'range', 'enumerate', 'zip', 'list', 'dict', 'tuple', 'str', 'isinstance', 'next',
    'filter_signal', 'compute_filter_length', 'amp_by_time', 'detect_bursts_dual_threshold', 'check_param_range',
    'check_param_options', 'warn', 'zscore', 'deepcopy', 'partial', 'Pool', 'cpu_count', 'imap', 'product', 'concat',
    'from_dict', 'DataFrame', 'startswith', 'endswith', 'replace', 'format', 'capitalize', 'keys', 'items', 'values',
    'get_loc', 'cycle', 'import_module', 'print', 'gt', 'lt', 'errstate', 'normal', 'subplots', 'plot_time_series', 'plot_bursts',
    'axvspan', 'hist', 'scatter', 'set_xlabel', 'set_ylabel', 'set_xlim', 'legend', 'set_xticks', 'set_xticklabels',
    'tick_params', 'set_visible', 'tqdm', 'nan', 'inf', 'pi', 'copy', 'records', 'drop', 'isin', 'load', 'join',
    'check_data_folder', 'check_data_file', 'savefig',
}


_MUTATED_GLOBALS = {}
_GLOBAL_MUTATORS = {'pop', 'update', 'setdefault', 'clear', 'append', 'extend', 'insert', 'remove', 'sort', 'popitem', 'reverse', 'add', 'discard'}


def _mutated_globals(model, mod):
    """names assigned at module level that some function of the module updates in place or rebinds (global statement)"""
    key = (id(model), mod)
    if key not in _MUTATED_GLOBALS:
        names = set(model.modassign.get(mod, {}))
        out = set()
        tree = model.mods.get(mod)
        for fn in ast.walk(tree) if tree is not None else ():
            if not isinstance(fn, (ast.FunctionDef, ast.AsyncFunctionDef)):
                continue
            for x in ast.walk(fn):
                if isinstance(x, ast.Global):
                    out |= set(x.names) & names
                elif isinstance(x, ast.Call) and isinstance(x.func, ast.Attribute) and isinstance(x.func.value, ast.Name) and x.func.value.id in names and \
                        x.func.attr in _GLOBAL_MUTATORS:
                    out.add(x.func.value.id)
                elif isinstance(x, ast.Subscript) and isinstance(x.ctx, (ast.Store, ast.Del)) and isinstance(x.value, ast.Name) and x.value.id in names:
                    out.add(x.value.id)
                elif isinstance(x, ast.AugAssign) and isinstance(x.target, ast.Name) and x.target.id in names:
                    out.add(x.target.id)
        _MUTATED_GLOBALS[key] = out
    return _MUTATED_GLOBALS[key]


class Obj:
    """python-level mutable things that are not terms: function references, partials, objects."""


class Frame:
    def __init__(self, ctx, func, bound, depth=0, selfobj=None, pc=(), loops=()):
        self.ctx, self.fn, self.depth = ctx, func, depth
        self.env = {}
        self.pc = list(pc)              # enclosing branch conditions (stack)
        self.perm = []                  # conditions known to hold for the rest of the function
        self.ret_perm = []              # the subset established by an early *return*: later effects on heap objects happen only under them
        self.alive = []                 # per enclosing loop iteration: conditions under which the iteration is still running (no continue / break taken)
        self.pending = []               # early returns: (cond, term)
        self.loops = list(loops)        # enclosing loop variables (terms)
        self.breaks = []                # stack of lists of (cond, env) for the innermost loop
        self.alias = {}                 # local name -> parameter name while it still denotes the caller's object
        self.param_out = {}             # parameter name -> term after in-place updates
        self.selfobj = selfobj
        self._pre = {}
        self.mutated = set()            # local names whose object was updated in place since they were bound
        self.loop_alias = {}            # loop variable -> text of the sequence whose element it currently IS (same object), until it is rebound
        self.mod = func.mod
        self._bind(bound)

    # ------------------------------------------------------------------ binding
    def _bind(self, bound):
        fn = self.fn
        for p in fn.params + fn.kwonly:
            if p in bound:
                self.env[p] = bound[p]
            elif p in fn.defaults:
                self.env[p] = self.ex(fn.defaults[p])
            elif p == 'self' and self.selfobj is not None:
                self.env[p] = self.selfobj
            else:
                self.env[p] = ('param', p)
            if fn.kinds.get(p) == 'num' and self.env[p][0] == 'param':
                T.SCALARS.add(self.env[p])
            self.alias[p] = p
        if fn.vararg:
            self.env[fn.vararg] = bound.get(fn.vararg, ('tuple', ()))
        if fn.kwarg:
            self.env[fn.kwarg] = bound.get(fn.kwarg, ('dict', ()))

    def where(self, node):
        return f'{self.fn.path}:{getattr(node, "lineno", "?")}'

    def guard(self):
        return T.and_(self.pc + [c for lvl in self.alive for c in lvl['conds']])

    # ------------------------------------------------------------------ running
    def run(self):
        self.ctx.frames.append(self)
        try:
            out = self.block(self.fn.body)
        finally:
            self.ctx.frames.pop()
        final = out.term if isinstance(out, Ret) else (None if out == RAISE else NONE)
        self.always_raises = out == RAISE and not self.pending
        for cond, term in reversed(self.pending):
            final = term if final is None else T.gamma(cond, term, final)
        self.result = final
        return final

    def block(self, stmts):
        for s in stmts:
            out = self.stmt(s)
            if out != FALL:
                return out
        return FALL

    def fold(self, c):
        """truth value of a condition term, using what is known on this path"""
        c = self.truth(c)
        if c in self.pc or c in self.perm:
            return TRUE
        n = T.not_(c)
        if n in self.pc or n in self.perm:
            return FALSE
        return c

    def truth(self, c):
        tag = c[0]
        if tag == 'strtest' and T.isconst(c[2]) and T.isconst(c[3]):
            return ('const', getattr(c[2][1], c[1])(c[3][1]))
        if tag == 'cmp' and c[1] in ('In', 'NotIn') and T.isconst(c[2]) and T.isconst(c[3]) and isinstance(c[2][1], str) and isinstance(c[3][1], str):
            r = c[2][1] in c[3][1]
            return ('const', r if c[1] == 'In' else not r)
        if tag == 'const':
            v = c[1]
            if v in ('nan', 'inf', '-inf'):
                return TRUE
            return ('const', bool(v))
        if tag in ('dict', 'tuple', 'list'):
            return ('const', len(c[1]) > 0)
        if tag in ('len', 'nrows'):
            return T.not_(T.cmp_('Eq', C(0), c))          # a length is true when it is not zero
        if tag == 'keysand':
            return T.or_([self.fold(self.compare('In', x, c[1])) for x in c[2][1]])
        if tag == 'set':
            return ('const', len(c[1]) > 0)
        if tag == 'table':
            return c
        if tag in ('funcref', 'partial', 'obj'):
            return TRUE
        return c

    # ------------------------------------------------------------------ statements
    def stmt(self, s):
        m = getattr(self, 'st_' + type(s).__name__, None)
        if m is None:
            self.ctx.opaque.append((f'statement {type(s).__name__}', self.where(s)))
            return FALL
        try:
            return m(s)
        except RaisedInCallee:
            return RAISE

    def st_Expr(self, s):
        if isinstance(s.value, ast.Constant):
            return FALL
        v = self.ex(s.value)
        self._inplace_call(s.value, v, s)
        return FALL

    def _inplace_target(self, n):
        """for `f(x, ...)`, f a package function whose effect summary says it writes through parameter p and returns exactly that argument: the name passed for p"""
        if not (isinstance(n, ast.Call) and isinstance(n.func, ast.Name)):
            return None
        q = self.ctx.model.resolve(self.mod, n.func.id)
        fn = self.ctx.model.funcs.get(q) if isinstance(q, str) else None
        if fn is None or any(isinstance(a, ast.Starred) for a in n.args) or any(k.arg is None for k in n.keywords):
            return None
        from .rules.common import effects
        summ = effects(self.ctx.model)[0].get(fn.qual)
        if not summ or len(summ['ret']) != 1:
            return None
        (r,) = tuple(summ['ret'])
        if r[0] != 'P' or r[1] not in summ['mut']:
            return None
        node = None
        if r[1] in fn.params and fn.params.index(r[1]) < len(n.args):
            node = n.args[fn.params.index(r[1])]
        for k in n.keywords:
            if k.arg == r[1]:
                node = k.value
        return (node.id, fn.name) if isinstance(node, ast.Name) else None

    def _inplace_call(self, n, v, s):
        """`f(x, ...)` as a statement, f kept as a call (not inlined) and known to update x in place and return it: after the call the caller's x is the returned
        object, i.e. the statement is `x = f(x, ...)`"""
        t = self._inplace_target(n)
        if t and isinstance(v, tuple) and v and v[0] == 'call' and v[1] == t[1]:
            self.assign(ast.Name(id=t[0], ctx=ast.Store()), v, s)

    def st_Pass(self, s):
        return FALL

    def st_Import(self, s):
        return FALL

    st_ImportFrom = st_Import

    def st_Global(self, s):
        self.ctx.event('global', ','.join(s.names), where=self.where(s))
        return FALL

    def st_Assert(self, s):
        c = self.fold(self.ex(s.test))
        if c != TRUE:
            self.ctx.raises.append(('AssertionError', T.and_(self.pc + [T.not_(c)]), self.where(s)))
            if c == FALSE:
                return RAISE
            self.perm.append(c)
        return FALL

    def st_Assign(self, s):
        v = self.ex(s.value)
        for t in s.targets:
            self.assign(t, v, s)
        return FALL

    def st_AnnAssign(self, s):
        if s.value is not None:
            self.assign(s.target, self.ex(s.value), s)
        return FALL

    def st_AugAssign(self, s):
        cur = self.ex(_load(s.target))
        v = self.binop(s.op, cur, self.ex(s.value), s)
        if isinstance(s.target, ast.Name):
            # in-place on arrays is a mutation of the object; value-wise identical to rebinding
            name = s.target.id
            self.env[name] = v
            if name in self.alias and cur[0] not in ('const',) and not T.is_int(cur):
                self.param_out[self.alias[name]] = v
                self.ctx.event('inplace', type(s.op).__name__, (cur,), guard=self.guard(), where=self.where(s), extra={'target': name})
        else:
            self.assign(s.target, v, s)
        return FALL

    def st_Delete(self, s):
        for t in s.targets:
            if isinstance(t, ast.Subscript) and isinstance(t.value, ast.Name):
                base = self.env.get(t.value.id)
                k = self.ex(t.slice)
                if base is not None and base[0] == 'dict' and T.isconst(k):
                    new = ('dict', tuple((kk, vv) for kk, vv in base[1] if kk != k[1]))
                else:
                    new = ('dictdel', base if base is not None else ('opaque', t.value.id), k)
                self.update_name(t.value.id, new)
            elif isinstance(t, ast.Subscript) and not isinstance(t.value, ast.Name) and self.is_place(t.value):
                # del obj.attr[k] / del lst[i][k]: the same update on a place that is not a plain name
                base = self.place_get(t.value)
                k = self.ex(t.slice)
                if base[0] == 'dict' and T.isconst(k):
                    new = ('dict', tuple((kk, vv) for kk, vv in base[1] if kk != k[1]))
                else:
                    new = ('dictdel', base, k)
                g = self.guard()
                self.place_set(t.value, new if g == TRUE else T.gamma(g, new, base))
            elif isinstance(t, ast.Subscript):
                self.ctx.opaque.append((f'del {ast.unparse(t)}', self.where(s)))
            elif isinstance(t, ast.Name):
                self.env.pop(t.id, None)
        return FALL

    def st_Return(self, s):
        return Ret(self.ex(s.value) if s.value is not None else NONE)

    def st_Raise(self, s):
        name = '?'
        if s.exc is not None:
            e = s.exc
            if isinstance(e, ast.Call):
                e = e.func
            name = ast.unparse(e)
            # raise helper(...): the exception type is what the helper constructs in every return
            if isinstance(s.exc, ast.Call) and isinstance(e, ast.Name) and e.id not in self.env:
                r_ = self.ctx.model.resolve(self.mod, e.id)
                if isinstance(r_, str) and r_ in self.ctx.model.funcs:
                    rets = [x.value for x in ast.walk(self.ctx.model.funcs[r_].node) if isinstance(x, ast.Return)]
                    kinds = {ast.unparse(x.func) for x in rets if isinstance(x, ast.Call)}
                    if rets and len(kinds) == 1 and all(isinstance(x, ast.Call) for x in rets):
                        name = kinds.pop()
        # after an earlier `return` on another path, this statement is reached only where that return was not taken
        self.ctx.raises.append((name, T.and_([self.guard()] + list(self.ret_perm)), self.where(s)))
        return RAISE

    def st_Break(self, s):
        return BREAK

    def st_Continue(self, s):
        return CONTINUE

    def st_FunctionDef(self, s):
        body = [b for b in s.body if not (isinstance(b, ast.Expr) and isinstance(b.value, ast.Constant))]
        a = s.args
        one_return = len(body) == 1 and isinstance(body[0], ast.Return) and body[0].value is not None
        one_call = len(body) == 1 and isinstance(body[0], ast.Expr) and isinstance(body[0].value, ast.Call)
        if (one_return or one_call) and not s.decorator_list and not (a.vararg or a.kwarg or a.kwonlyargs or a.defaults or a.posonlyargs):
            # a local helper that is one return expression (or one call made for its effect): the same thing as a lambda bound to the name
            lam = ast.Lambda(args=a, body=body[0].value)
            ast.copy_location(lam, s)
            key = f'def@{self.mod}:{s.lineno}:{s.name}'
            if one_call:
                self.ctx.__dict__.setdefault('lambda_returns_none', set()).add(key)
            self.ctx.lambdas[key] = (lam, dict(self.env), self.mod, id(self))
            self.env[s.name] = ('lambda', key)
            return FALL
        if not s.decorator_list and not any(isinstance(x, (ast.Yield, ast.YieldFrom, ast.Nonlocal, ast.Global)) for x in ast.walk(s)):
            # a local function with a body of several statements: evaluated like a package function when it is called, in a frame whose free names are
            # looked up in this frame as it is at the time of the call (closure, late binding).  Rebinding of outer names from inside is not modelled
            # (no nonlocal); in-place updates of outer objects made by the body are not propagated back
            from .srcmodel import Func
            key = f'localdef@{self.mod}:{s.lineno}:{s.name}'
            fn = Func(self.mod, f'{self.fn.qual}.<locals>.{s.name}', s, path=self.fn.path)
            self.ctx.__dict__.setdefault('local_funcs', {})[key] = (fn, self)
            self.env[s.name] = ('localfn', key)
            return FALL
        self.env[s.name] = ('opaque', f'nested function {s.name}')
        return FALL

    def st_With(self, s):
        for it in s.items:
            v = self.ex(it.context_expr)
            if it.optional_vars is not None:
                self.assign(it.optional_vars, v, s)
        return self.block(s.body)

    def st_Try(self, s):
        # the repository has one try (optional tqdm import): evaluate the body; handlers are alternative
        # continuations whose effects are merged under an opaque "exception" condition
        env0 = dict(self.env)
        n_r = len(self.ctx.raises)
        out = self.block(s.body)
        env1 = self.env
        # exactly modelled outcome of the body: which of the handlers' exception types it raised, if any
        def caught_by(h, kind):
            if h.type is None:
                return True
            names = [ast.unparse(e).rsplit('.', 1)[-1] for e in (h.type.elts if isinstance(h.type, ast.Tuple) else [h.type])]
            return kind in names or 'Exception' in names or 'BaseException' in names
        new = self.ctx.raises[n_r:]
        if not s.handlers:
            # try / finally: nothing is caught; the clean-up runs and whatever the body did (fall through, return, raise) stands
            if s.finalbody:
                self.block(s.finalbody)
            return out
        hit = [(i, r) for i, r in enumerate(new) if any(caught_by(h, r[0]) for h in s.handlers)]
        if not hit and not s.finalbody and not any(e['kind'] in ('call', 'pkgcall') and not e.get('inlined') for e in self.ctx.trace[-0:0]):
            pure = all(isinstance(x, (ast.Assign, ast.Expr, ast.Return, ast.AugAssign, ast.AnnAssign)) for x in s.body)
            calls_out = any(isinstance(c, ast.Call) for x in s.body for c in ast.walk(x))
            if pure and not calls_out:
                # the body is straight-line code without calls and raised none of the handled types on this path: no handler runs
                if s.orelse:
                    self.block(s.orelse)
                return out if out != RAISE else FALL
        if len(hit) == 1 and hit[0][1][1] == T.and_(self.pc) and len(s.handlers) >= 1:
            # the body raises a handled exception unconditionally on this path: the try statement IS its handler
            i, r = hit[0]
            del self.ctx.raises[n_r + i]
            self.env = dict(env0)
            h = next(h for h in s.handlers if caught_by(h, r[0]))
            if h.name:
                self.env[h.name] = ('exc', r[0])
            out_h = self.block(h.body)
            if s.finalbody:
                self.block(s.finalbody)
            return out_h
        for h in s.handlers:
            self.env = dict(env0)
            cond = ('atom', f'raises[{ast.unparse(h.type) if h.type else "*"}]', 'bool')
            self.pc.append(cond)
            self.block(h.body)
            self.pc.pop()
            env1 = self.merge(cond, self.env, env1)
        self.env = env1
        if s.orelse:
            self.block(s.orelse)
        if s.finalbody:
            self.block(s.finalbody)
        return out if out != RAISE else FALL

    def st_If(self, s):
        c = self.fold(self.ex(s.test))
        if c == TRUE:
            return self.block(s.body)
        if c == FALSE:
            return self.block(s.orelse)
        env0 = dict(self.env)
        n0, p0 = len(self.pc), len(self.perm)
        self.pc.append(c)
        o1 = self.block(s.body)
        env1 = self.env
        del self.pc[n0:]
        perm1 = self.perm[p0:]
        del self.perm[p0:]
        self.env = dict(env0)
        nc = T.not_(c)
        self.pc.append(nc)
        o2 = self.block(s.orelse)
        env2 = self.env
        del self.pc[n0:]
        perm2 = self.perm[p0:]
        del self.perm[p0:]
        return self.join(c, nc, o1, env1, perm1, o2, env2, perm2)

    def join(self, c, nc, o1, env1, perm1, o2, env2, perm2):
        if o1 == FALL and o2 == FALL:
            self.env = self.merge(c, env1, env2)
            return FALL
        if o1 == FALL or o2 == FALL:
            live_env, live_c, dead_o, dead_c, live_perm = (env1, c, o2, nc, perm1) if o1 == FALL else (env2, nc, o1, c, perm2)
            if dead_o in (BREAK, CONTINUE):
                if self.breaks:
                    self.breaks[-1].append((dead_o, T.and_(self.pc + [dead_c]), env2 if o1 == FALL else env1))
                if self.alive:
                    # the rest of this iteration runs only where the jump was not taken (stated so that it also holds outside the enclosing branches)
                    lvl = self.alive[-1]
                    lvl['conds'].append(T.not_(T.and_(self.pc[lvl['base']:] + [dead_c])))
                self.env = live_env
                self.perm.append(live_c)
                self.perm.extend(live_perm)
                return FALL
            self.env = live_env
            self.perm.append(live_c)
            self.perm.extend(live_perm)
            if isinstance(dead_o, Ret):
                self.pending.append((T.and_(self.pc + [dead_c]), dead_o.term))
                # the function has returned on the other path: what follows changes an object's state only where that return was not taken
                # (stated as the negation of the returning path, so that it holds on every later path, also outside the enclosing branches)
                self.ret_perm.append(T.not_(T.and_(self.pc + [dead_c])))
            return FALL
        # both branches leave
        if isinstance(o1, Ret) and isinstance(o2, Ret):
            return Ret(T.gamma(c, o1.term, o2.term))
        if isinstance(o1, Ret):
            self.perm.append(c)
            return o1
        if isinstance(o2, Ret):
            self.perm.append(nc)
            return o2
        if o1 == RAISE and o2 == RAISE:
            return RAISE
        # break/continue combos
        for o, cc, e in ((o1, c, env1), (o2, nc, env2)):
            if o in (BREAK, CONTINUE) and self.breaks:
                self.breaks[-1].append((o, T.and_(self.pc + [cc]), e))
        return o1 if o1 in (BREAK, CONTINUE) else o2

    def merge(self, c, e1, e2):
        out = {}
        for k in set(e1) | set(e2):
            a, b = e1.get(k), e2.get(k)
            if a is None or b is None:
                out[k] = a if b is None else b     # defined on one path only (python would raise on the other if read)
                if a is None or b is None:
                    out[k] = T.gamma(c, a if a is not None else ('undefined', k), b if b is not None else ('undefined', k))
            elif a == b:
                out[k] = a
            else:
                m = T.merge_arrs(a, b)
                out[k] = m if m is not None else T.gamma(c, a, b)
        return out

    # ------------------------------------------------------------------ loops
    _iter_guard = TRUE
    _plain_iter = False       # True while binding an iterable whose POSITIONS matter (enumerate, misaligned zip): no guarded normal form then

    def iter_binding(self, it_node):
        """-> (key, loop variable, element term) for a for-loop / comprehension iterable; ``self._iter_guard`` collects the condition
        under which an element is visited (masked iteration)"""
        depth = len(self.loops)
        if isinstance(it_node, ast.Call) and isinstance(it_node.func, ast.Name) and it_node.func.id in ('range', 'enumerate', 'zip', 'product') \
                and it_node.func.id not in self.env:
            f = it_node.func.id
            if f == 'range':
                a = [self.ex(x) for x in it_node.args]
                lo, hi, st = (C(0), a[0], C(1)) if len(a) == 1 else (a[0], a[1], C(1)) if len(a) == 2 else (a[0], a[1], a[2])
                key = ('range', lo, hi, st)
                lv = ('lv', key, depth)
                return key, lv, lv
            if f == 'enumerate':
                saved_plain, self._plain_iter = self._plain_iter, True      # enumerate counts the elements actually visited
                try:
                    key, lv, elem = self.iter_binding(it_node.args[0])
                finally:
                    self._plain_iter = saved_plain
                start = self.ex(it_node.args[1]) if len(it_node.args) > 1 else C(0)
                pos = self.position(key, lv)
                return key, lv, ('tuple', (T.add(pos, start) if start != C(0) else pos, elem))
            if f == 'zip':
                operands = []                                     # (binder, argument): evaluated once, bound twice if the guards disagree
                for x in it_node.args:
                    if isinstance(x, ast.Starred):
                        sv = self.ex(x.value)          # zip(*(A, B)) == zip(A, B)
                        if sv[0] in ('tuple', 'list'):
                            operands.extend((lambda t: self.iter_of_term(t, depth), e) for e in sv[1])
                        else:
                            operands.append((lambda t: self.iter_of_term(t, depth), ('starred', sv)))
                    elif isinstance(x, ast.Call) and isinstance(x.func, ast.Name) and x.func.id in ('range', 'enumerate', 'zip', 'product') and x.func.id not in self.env:
                        operands.append((self.iter_binding, x))
                    else:
                        operands.append((lambda t: self.iter_of_term(t, depth), self.ex(x)))
                return self._zip_bind(operands, depth)
            if f == 'product':
                parts = [self.iter_binding(x) for x in it_node.args]
                key = ('product', tuple(p[0] for p in parts))
                lv = ('lv', key, depth)
                elems = [('idx', ('unravel', lv, C(i)), C(0)) for i, _ in enumerate(parts)]
                # product(range(a), range(b)) enumerated row-major: element i of the pair
                elems = [('prodidx', lv, C(i)) for i, _ in enumerate(parts)]
                return key, lv, ('tuple', tuple(elems))
        it = self.ex(it_node)
        return self.iter_of_term(it, depth)

    def _zip_bind(self, operands, depth):
        """binding of zip(...) from (binder, argument) pairs: one loop variable over the positions common to all operands"""
        parts, guards = [], []
        outer = self._iter_guard

        def part(fn_, arg):
            self._iter_guard = TRUE
            p_ = fn_(arg)
            parts.append(p_)
            guards.append((p_[1], self._iter_guard))
        # elements are paired by position: a skipping (guarded) normal form is only sound when every operand skips the same positions
        saved_plain = self._plain_iter
        for fn_, arg in operands:
            part(fn_, arg)
        if len({T.subst(gd, lambda y, l=l: ('lv', ('position',), depth) if y == l else None) for (l, gd) in guards}) > 1:
            parts, guards = [], []
            self._plain_iter = True
            for fn_, arg in operands:
                part(fn_, arg)
        self._plain_iter = saved_plain
        keys = T.sort_terms({p[0] for p in parts})
        # the positions visited are those common to all operands; which operand is named first does not matter
        key = keys[0] if len(keys) == 1 else ('zip', tuple(keys))
        lv = ('lv', key, depth)
        elems = []
        for (k, l, e) in parts:
            elems.append(T.subst(e, lambda x, l=l: lv if x == l else None))
        self._iter_guard = T.and_([outer] + [T.subst(gd, lambda x, l=l: lv if x == l else None) for l, gd in guards])
        return key, lv, ('tuple', tuple(elems))

    def iter_of_term(self, it, depth):
        if it[0] == 'nd':
            it = it[1]
        zt = it[2][0] if it[0] == 'call' and it[1] == 'list' and len(it[2]) == 1 and not it[3] else it
        if zt[0] == 'call' and zt[1] == 'zip' and zt[2] and not zt[3] and not any(a[0] in ('starargs', 'starred') for a in zt[2]):
            # a zip object (or the list made from it) bound to a name and iterated later: the same pairs as zip(...) written in the loop header
            return self._zip_bind([(lambda t: self.iter_of_term(t, depth), a) for a in zt[2]], depth)
        if it[0] == 'records':
            tb = it[1]
            sel = {v[2][1] for c, v in tb[1] if v[0] == 'idx' and isinstance(v[2], tuple) and v[2] and v[2][0] == 'rowsel'} if tb[0] == 'table' and tb[1] else set()
            if not self._plain_iter and len(sel) == 1 and all(v[0] == 'idx' and v[2] == ('rowsel', next(iter(sel))) for c, v in tb[1]) and \
                    (T._masklike(next(iter(sel))) or T.is_boolarr(next(iter(sel)))):
                # the rows of df[mask] in order == the rows of df, skipping those whose flag is not set
                m = next(iter(sel))
                base = ('table', tuple((c, v[1]) for c, v in tb[1]), T.length(m))
                key = ('range', C(0), T.length(m), C(1))
                lv = ('lv', key, depth)
                self._iter_guard = T.and_([self._iter_guard, T.index(m, lv)])
                return key, lv, ('row', base, lv)
            key = ('range', C(0), T.length(it[1]), C(1))      # rows are visited by position
            lv = ('lv', key, depth)
            return key, lv, ('row', it[1], lv)
        if not self._plain_iter and it[0] == 'call' and it[1] == 'flatnonzero' and len(it[2]) == 1 and (T._masklike(T.strip_nd(it[2][0])) or T.is_boolarr(it[2][0])):
            # the positions where a mask is set, in order == all positions, skipping those where it is not
            m = T.strip_nd(it[2][0])
            key = _mask_key(m)
            lv = ('lv', key, depth)
            self._iter_guard = T.and_([self._iter_guard, T.index(m, lv)])
            return key, lv, lv
        if not self._plain_iter and it[0] in ('map', 'filtermap') and len(it) == (3 if it[0] == 'map' else 4):
            # iterating a list that was built element-wise (a comprehension bound to a name, or returned by a helper) == iterating what the comprehension
            # iterated, each element being the comprehension's expression (under its filter)
            key, cond, elt = it[1], (it[2] if it[0] == 'filtermap' else TRUE), it[-1]
            old = {x for x in T.walk(('tuple', (cond, elt))) if x[0] == 'lv' and x[1] == key}
            if len(old) <= 1 and not any(x[0] in ('map', 'filtermap') and x[1] == key for x in T.walk(('tuple', (cond, elt)))):
                lv = ('lv', key, depth)
                if old and next(iter(old)) != lv:
                    o_ = next(iter(old))
                    cond, elt = (T.subst(t_, lambda y: lv if y == o_ else None) for t_ in (cond, elt))
                if cond != TRUE:
                    self._iter_guard = T.and_([self._iter_guard, cond])
                return key, lv, elt
        if it[0] == 'items':
            key = ('items', it[1])
            lv = ('lv', key, depth)
            return key, lv, ('tuple', (('keyat', it[1], lv), ('valat', it[1], lv)))
        if it[0] == 'keys' and len(it) > 2:
            key = ('keysof', it[2])
            lv = ('lv', key, depth)
            return key, lv, ('keyat', it[2], lv)
        if not self._plain_iter and it[0] == 'idx' and it[2][0] == 'rowsel' and (T._masklike(it[2][1]) or T.is_boolarr(it[2][1])):
            # iterating a column of df[mask] == iterating the column of df, skipping the rows whose flag is not set
            m = it[2][1]
            key = ('range', C(0), T.length(m), C(1))
            lv = ('lv', key, depth)
            self._iter_guard = T.and_([self._iter_guard, T.index(m, lv)])
            return key, lv, T.index(it[1], lv)
        if not self._plain_iter and it[0] == 'idx' and it[2][0] in ('cmp0', 'band', 'bor', 'binv'):
            # iterating the selected elements X[mask] == iterating all positions of X under the guard mask[i]
            key = ('range', C(0), T.length(it[1]), C(1))
            lv = ('lv', key, depth)
            self._iter_guard = T.and_([self._iter_guard, T.index(it[2], lv)])
            return key, lv, T.index(it[1], lv)
        # iterating a sequence == iterating its positions: one normal form for `for x in X`, `for i in range(len(X))` and comprehensions
        key = ('range', C(0), T.length(it), C(1))
        lv = ('lv', key, depth)
        if it[0] in ('tuple', 'list'):
            return key, lv, ('idx', it, lv)
        return key, lv, T.index(it, lv)

    def position(self, key, lv):
        """0-based position of the loop variable inside its iterable"""
        if key[0] == 'range':
            if key[1] == C(0) and key[3] == C(1):
                return lv
            return T.div(T.sub(lv, key[1]), key[3])
        return lv

    def unrollable(self, it_node):
        """literal (or constant-folded) short sequences are unrolled: exact semantics, lets option-key loops fold"""
        return self.literal_items(it_node)

    def st_For(self, s):
        items = self.unrollable(s.iter)
        if items is not None and not any(isinstance(x, ast.Break) for b in s.body for x in ast.walk(b)):
            pairs = _alias_pairs(s.target, s.iter)
            for i, e in enumerate(items):
                self.assign(s.target, e, s)
                for elem_t, src in pairs:
                    self.loop_alias[elem_t.id] = ast.unparse(src)
                self.breaks.append([])
                self.alive.append({'base': len(self.pc), 'conds': []})
                p0_ = len(self.perm)
                out = self.block(s.body)
                self.alive.pop()
                del self.perm[p0_:]
                for kind, cond, e_ in reversed(self.breaks.pop()):      # conditional `continue`: its state joins the end of this iteration
                    self.env = self.merge(cond, e_, self.env)
                if out == CONTINUE:
                    out = FALL
                # the loop variable aliases the list element: in-place updates through it are updates of the element
                for elem_t, src in pairs:
                    if elem_t.id in self.mutated and elem_t.id in self.loop_alias and self.is_place(src):
                        cur = self.place_get(src)
                        if cur[0] == 'list' and i < len(cur[1]):
                            lst = list(cur[1])
                            lst[i] = self.env[elem_t.id]
                            self.place_set(src, ('list', tuple(lst)))
                if out != FALL:
                    return out
            for elem_t, src in pairs:
                self.loop_alias.pop(elem_t.id, None)
            if s.orelse:
                return self.block(s.orelse)
            return FALL
        if _returns_inside(s.body) and not getattr(s, '_ret_rewritten', False):
            # a `return X` inside the loop is a first-match exit: ret = X; found = True; break ... if found: return ret
            n_ = self.ctx.fresh('loopret')
            has, ret = f'__found_{n_}', f'__ret_{n_}'
            loop = ast.For(target=s.target, iter=s.iter, body=[_ReturnToBreak(has, ret).visit(copy.deepcopy(b)) for b in s.body], orelse=s.orelse, lineno=s.lineno, col_offset=0)
            loop._ret_rewritten = True
            stmts = [ast.Assign([ast.Name(has, ast.Store())], ast.Constant(False), lineno=s.lineno), ast.Assign([ast.Name(ret, ast.Store())], ast.Constant(None), lineno=s.lineno),
                     loop, ast.If(ast.Name(has, ast.Load()), [ast.Return(ast.Name(ret, ast.Load()), lineno=s.lineno)], [], lineno=s.lineno)]
            for st_ in stmts:
                ast.fix_missing_locations(st_)
            return self.block(stmts)
        self._iter_guard = TRUE
        key, lv, elem = self.iter_binding(s.iter)
        it_guard = self._iter_guard
        assigned = _assigned_names(s.body, self._inplace_target)
        targets = _target_names(s.target)
        live_in = _read_before_write(s.body, targets)
        # a name assigned only under a condition keeps its earlier value in the iterations that skip the assignment: its value after the loop
        # depends on the loop as a whole, like that of a name read before it is written
        top_level = {t.id for st_ in s.body if isinstance(st_, (ast.Assign, ast.AnnAssign, ast.AugAssign))
                     for t in (st_.targets if isinstance(st_, ast.Assign) else [st_.target]) for t in ast.walk(t) if isinstance(t, ast.Name)}
        under_if = {t.id for st_ in s.body for i_ in ast.walk(st_) if isinstance(i_, ast.If) for a_ in ast.walk(i_) if isinstance(a_, (ast.Assign, ast.AugAssign))
                    for t in (a_.targets if isinstance(a_, ast.Assign) else [a_.target]) for t in ast.walk(t) if isinstance(t, ast.Name) and isinstance(t.ctx, ast.Store)}
        carried = [n for n in assigned if n in self.env and n not in targets and (n in live_in or (n in under_if and n not in top_level))]
        init = {n: self.env[n] for n in carried}
        depth = len(self.loops)
        for k, n in enumerate(carried):
            self.env[n] = ('carried', k, key, depth, init[n])
        self.assign(s.target, elem, s)
        self.loops.append(lv)
        self.breaks.append([])
        n0, p0 = len(self.pc), len(self.perm)
        if it_guard != TRUE:
            self.pc.append(it_guard)
        self.alive.append({'base': len(self.pc), 'conds': []})
        out = self.block(s.body)
        self.alive.pop()
        del self.pc[n0:]
        del self.perm[p0:]
        brks = self.breaks.pop()
        self.loops.pop()
        env_end = self.env
        brk_cond = FALSE
        for kind, cond, e in reversed(brks):
            env_end = self.merge(cond, e, env_end)
            if kind == BREAK:
                brk_cond = T.or_([brk_cond, cond])
        self.env = env_end
        # x = zeros(n); for i in range(n): x[i] = v   ==   [v for i in range(n)]
        if key[0] == 'range' and key[1] == C(0) and key[3] == C(1) and not any(kind == BREAK for kind, _c, _e in brks) and out == FALL:
            for nm, val in list(self.env.items()):
                if val[0] == 'arr' and len(val[2]) == 1 and val[2][0][0] == lv and val[2][0][2] == T.and_(self.pc) and \
                        val[1][0] == 'call' and val[1][1] in ('zeros', 'ones', 'empty') and val[1][2] and val[1][2][0] == key[2]:
                    self.env[nm] = ('map', key, val[2][0][1])
        for k, n in enumerate(carried):
            upd = self.env.get(n)
            me = ('carried', k, key, depth, init[n])
            if upd is not None and upd[0] == 'gamma' and upd[3] == me and brk_cond != FALSE and upd[1] == brk_cond:
                # updated only in the iteration that leaves the loop: until then the variable still holds its initial value (first-match search)
                upd = T.gamma(upd[1], T.subst(upd[2], lambda y, me=me, v0=init[n]: v0 if y == me else None), me)
                self.env[n] = upd
            if upd == me:
                self.env[n] = init[n]
            elif upd is not None and upd[0] == 'arr' and upd[1] == me:
                # array updated by stores only: re-root on the initial value
                self.env[n] = ('arr', init[n], upd[2]) if init[n][0] != 'arr' else ('arr', init[n][1], init[n][2] + upd[2])
            elif upd is not None and self._is_append_chain(upd, me):
                self.env[n] = self._append_chain(upd, me, init[n], key)
            else:
                self.env[n] = ('loopout', key, init[n], upd, brk_cond)
        if s.orelse:
            self.block(s.orelse)
        if isinstance(out, Ret):
            self.pending.append((T.and_(self.pc + [('atom', 'loop-return', 'bool')]), out.term))
        return FALL

    @staticmethod
    def _both_append(upd, me):
        """if c: acc.append(a) else: acc.append(b)   ==   acc.append(a if c else b): one element per iteration either way"""
        if upd[0] == 'gamma' and upd[2][0] == 'listappend' and upd[3][0] == 'listappend' and upd[2][1] == me and upd[3][1] == me:
            return ('listappend', me, T.gamma(upd[1], upd[2][2], upd[3][2]), TRUE)
        return upd

    def _is_append_chain(self, upd, me):
        upd = self._both_append(upd, me)
        if upd[0] == 'call' and upd[1] == 'append' and len(upd[2]) == 2 and not upd[3] and upd[2][0] == me and upd[2][1][0] in ('list', 'tuple'):
            return True                      # acc = np.append(acc, [a, b, ...])
        if upd[0] == 'gamma' and ((upd[3] == me and upd[2][0] == 'listappend' and upd[2][1] == me) or
                                  (upd[2] == me and upd[3][0] == 'listappend' and upd[3][1] == me)):
            return True                      # if cond: acc.append(v)   (a filtering comprehension written as a loop)
        return upd[0] == 'listappend' and upd[1] == me

    def _append_chain(self, upd, me, init, key):
        upd = self._both_append(upd, me)
        if upd[0] == 'call':
            # x = np.array([]); for ..: x = np.append(x, [a, b])   ->   the per-iteration groups concatenated in loop order
            if T.strip_nd(init) in (('list', ()), ('tuple', ())):
                return ('concatmap', key, ('list', upd[2][1][1]))
            return ('loopout', key, init, upd, FALSE)
        if upd[0] == 'gamma':
            cond, app = (upd[1], upd[2]) if upd[3] == me else (T.not_(upd[1]), upd[3])
            if init in (('list', ()), ('tuple', ())):
                fm = ('filtermap', key, cond, app[2])
                ps = T.parity_slice(fm)
                return ps if ps is not None else fm
            return ('loopout', key, init, upd, FALSE)
        # x = []; for ..: x.append(v)   ->   map over the loop (when the list starts empty and the append is unguarded)
        if init in (('list', ()), ('tuple', ())) and upd[3] == TRUE:
            return ('map', key, upd[2])
        return ('loopout', key, init, upd, FALSE)

    def st_While(self, s):
        self.ctx.opaque.append(('while loop', self.where(s)))
        for n in _assigned_names(s.body, self._inplace_target):
            self.env[n] = ('opaque', f'while-loop variable {n}')
        return FALL

    # ------------------------------------------------------------------ assignment
    def update_name(self, name, new):
        self.env[name] = new
        self.mutated.add(name)
        if name in self.alias:
            self.param_out[self.alias[name]] = new

    # a "place" is a local name or an attribute of a modelled object (self.x)
    def is_place(self, node):
        if isinstance(node, ast.Name):
            return True
        if isinstance(node, ast.Attribute) and isinstance(node.value, ast.Name):
            b = self.env.get(node.value.id)
            return b is not None and b[0] == 'obj'
        if isinstance(node, ast.Subscript) and isinstance(node.slice, (ast.Constant, ast.Name)) and self.is_place(node.value):
            i = self._const_index(node.slice)
            if i is None:
                return False
            b = self.place_get(node.value)       # element of a literal list held in a place
            return b[0] == 'list' and -len(b[1]) <= i < len(b[1])
        return False

    def _const_index(self, sl):
        t = self.ex(sl) if isinstance(sl, ast.Name) and sl.id in self.env else self.ex(sl) if isinstance(sl, ast.Constant) else None
        if t is not None and T.isconst(t) and isinstance(t[1], int) and not isinstance(t[1], bool):
            return t[1]
        return None

    def place_get(self, node):
        if isinstance(node, ast.Name):
            return self.env.get(node.id, ('opaque', node.id))
        if isinstance(node, ast.Subscript):
            return self.place_get(node.value)[1][self._const_index(node.slice)]
        b = self.env[node.value.id]
        return self.ctx.heap[b[1]]['attrs'].get(node.attr, ('undefined', node.attr))

    def place_set(self, node, new):
        if isinstance(node, ast.Name):
            self.update_name(node.id, new)
        elif isinstance(node, ast.Subscript):
            b = self.place_get(node.value)
            items = list(b[1])
            items[self._const_index(node.slice)] = new
            self.place_set(node.value, ('list', tuple(items)))
        else:
            b = self.env[node.value.id]
            self.ctx.heap[b[1]]['attrs'][node.attr] = new

    def assign(self, t, v, node):
        if isinstance(t, ast.Name):
            self.env[t.id] = v
            self.mutated.discard(t.id)
            self.alias.pop(t.id, None)
            self.loop_alias.pop(t.id, None)
        elif isinstance(t, (ast.Tuple, ast.List)):
            for i, e in enumerate(t.elts):
                if isinstance(e, ast.Starred):
                    self.assign(e.value, ('opaque', 'starred target'), node)
                else:
                    self.assign(e, T.index(v, C(i)), node)
        elif isinstance(t, ast.Subscript):
            self.store(t, v, node)
        elif isinstance(t, ast.Attribute):
            base = self.ex(t.value)
            if base[0] == 'obj':
                attrs = self.ctx.heap[base[1]]['attrs']
                g = T.and_(self.pc + self.ret_perm)
                attrs[t.attr] = v if g == TRUE else T.gamma(g, v, attrs.get(t.attr, ('undefined', t.attr)))
                self.ctx.event('setattr', t.attr, (base, v), guard=g, loops=self.loops, where=self.where(node))
            else:
                self.ctx.event('setattr', t.attr, (base, v), guard=self.guard(), loops=self.loops, where=self.where(node))
        else:
            self.ctx.opaque.append((f'assignment target {type(t).__name__}', self.where(node)))

    def store(self, t, v, node):
        g = self.guard()
        base_node = t.value
        # df.iloc[r, c] = v / df.loc[r, c] = v
        if isinstance(base_node, ast.Attribute) and base_node.attr in ('iloc', 'loc', 'at', 'iat') and isinstance(base_node.value, ast.Name):
            name = base_node.value.id
            cur = self.env.get(name, ('opaque', name))
            k = self.ex(t.slice)
            row, col = (k[1][0], k[1][1]) if k[0] == 'tuple' and len(k[1]) == 2 else (k, None)
            if col is not None and col[0] == 'call' and col[1] == 'get_loc' and len(col[2]) >= 2:
                col = col[2][1]
            if base_node.attr in ('loc', 'at') and not T.is_boolarr(row) and row[0] not in ('cmp', 'cmp0', 'band', 'bor', 'binv', 'not'):
                # .loc addresses rows by index LABEL: the same cell as the positional store only on a default 0..n-1 index,
                # which a cycle table cut from a longer one (limit_df, boolean selection) does not have
                row = ('label', row)
            if cur[0] == 'table' and col is not None and T.isconst(col) and col[1] in dict(cur[1]):
                cols = dict(cur[1])
                cols[col[1]] = _arr_store(cols[col[1]], row, v, g)
                new = ('table', tuple(sorted(cols.items())), cur[2])
            else:
                new = _arr_store(cur, ('cell', base_node.attr, row, col if col is not None else NONE), v, g)
            self.update_name(name, new)
            self.ctx.event('store', base_node.attr, (cur, k, v), guard=g, loops=self.loops, where=self.where(node), extra={'target': name})
            return
        if isinstance(base_node, ast.Name) and base_node.id not in self.env and self.ctx.model.resolve(self.mod, base_node.id) is None \
                and base_node.id not in self.ctx.model.modassign.get(self.mod, {}):
            # store into a name that is not bound on this path: python raises NameError
            self.ctx.raises.append(('NameError', self.guard(), self.where(node), 'implicit'))
            self.ctx.event('nameerror', base_node.id, guard=self.guard(), where=self.where(node))
            self.env[base_node.id] = ('opaque', f'NameError: {base_node.id} is not defined')
            return
        if self.is_place(base_node):
            name = ast.unparse(base_node)
            cur = self.place_get(base_node)
            if isinstance(t.slice, ast.Slice):
                k = ('sl',) + tuple(self.ex(x) if x is not None else NONE for x in (t.slice.lower, t.slice.upper, t.slice.step))
                if k[1] == C(0):
                    k = ('sl', NONE) + k[2:]
            else:
                k = self.ex(t.slice)
            if k[0] in ('list', 'tuple') and k[1] and all(T.isconst(x) and isinstance(x[1], int) for x in k[1]) and cur[0] not in ('dict', 'table'):
                new = cur
                for x in k[1]:
                    new = _arr_store(new, x, v, g)
                self.place_set(base_node, new)
                self.ctx.event('store', 'subscript', (cur, k, v), guard=g, loops=self.loops, where=self.where(node), extra={'target': name})
                return
            if cur[0] == 'table' and k[0] in ('list', 'tuple') and v[0] == 'table' and all(T.isconst(x) and isinstance(x[1], str) for x in k[1]) \
                    and {x[1] for x in k[1]} == set(dict(v[1])):
                d = dict(cur[1])                   # df[[c1, c2, ...]] = sub-table: column-wise assignment
                for c_, val in v[1]:
                    d[c_] = val if g == TRUE else T.gamma(g, val, d.get(c_, ('absent',)))
                self.place_set(base_node, ('table', tuple(sorted(d.items())), cur[2]))
                self.ctx.event('store', 'subscript', (cur, k, v), guard=g, loops=self.loops, where=self.where(node), extra={'target': name})
                return
            if cur[0] == 'dict' and T.isconst(k) and g == TRUE:
                d = dict(cur[1])
                d[k[1]] = v
                new = ('dict', tuple(sorted(d.items(), key=lambda kv: repr(kv[0]))))
            elif cur[0] == 'dict' and T.isconst(k):
                d = dict(cur[1])
                d[k[1]] = T.gamma(g, v, d.get(k[1], ('absent',)))
                new = ('dict', tuple(sorted(d.items(), key=lambda kv: repr(kv[0]))))
            elif cur[0] == 'table' and T.isconst(k) and isinstance(k[1], str):
                d = dict(cur[1])
                d[k[1]] = v if g == TRUE else T.gamma(g, v, d.get(k[1], ('absent',)))
                nrows = cur[2]
                new = ('table', tuple(sorted(d.items())), nrows)
            elif cur[0] in ('param', 'carried') and T.isconst(k) and isinstance(k[1], str) and False:
                new = cur
            else:
                pw = self._pointwise_store(cur, k, v)
                if pw is not None:
                    k, v = pw
                new = _arr_store(cur, k, v, g)
            self.place_set(base_node, new)
            self.ctx.event('store', 'subscript', (cur, k, v), guard=g, loops=self.loops, where=self.where(node), extra={'target': name})
            return
        # store through a computed base (element of a list, attribute ...): heap event
        base = self.ex(base_node)
        k = self.ex(t.slice) if not isinstance(t.slice, ast.Slice) else ('sl',) + tuple(self.ex(x) if x is not None else NONE for x in (t.slice.lower, t.slice.upper, t.slice.step))
        self.ctx.event('store', 'heap', (base, k, v), guard=g, loops=self.loops, where=self.where(node), extra={'target': ast.unparse(base_node)})
        # chained update of nested list held in a local: a[i][j] = v
        root = base_node
        path = []
        while isinstance(root, ast.Subscript):
            path.append(root.slice)
            root = root.value
        if self.is_place(root) and (not isinstance(root, ast.Name) or root.id in self.env):
            keys = tuple(self.ex(p) for p in reversed(path)) + (k,)
            self.place_set(root, _arr_store(self.place_get(root), ('path', keys), v, g))

    def _pointwise_store(self, cur, k, v):
        """X[a:b] = <element-wise vector expression>   ==   for i in range(a, len(X)+b): X[i] = <element i-a>"""
        if k[0] != 'sl' or k[3] != NONE or not (k[1] == NONE or T._nonneg_const(k[1])) or not (k[2] == NONE or T.isconst(k[2])):
            return None
        vv = v[1] if v[0] == 'nd' else v
        if not (vv[0] in ('div', 'mul', 'slice') or (vv[0] == 'call' and vv[1] in ('minimum', 'maximum')) or
                (vv[0] == 'lin' and any(x[0] in ('slice', 'div', 'mul') for x, c in vv[2]))) or T.scalar_value(vv):
            return None
        n = T.length(cur)
        lo = k[1] if k[1] != NONE else C(0)
        hi = n if k[2] == NONE else T.add(n, k[2]) if T._neg_const(k[2]) else k[2]
        if hi[0] == 'len':
            return None
        lv = ('lv', ('range', lo, hi, C(1)), len(self.loops))
        elt = T.index(vv, T.sub(lv, lo))
        for x in T.walk(elt):
            if x[0] == 'idx' and (x[1][0] in ('div', 'mul', 'slice', 'lin') or (x[1][0] == 'call' and x[1][1] in ('minimum', 'maximum'))):
                return None
        return lv, elt

    # ------------------------------------------------------------------ expressions
    def ex(self, n):
        if self._pre and id(n) in self._pre:
            return self._pre.pop(id(n))
        m = getattr(self, 'ex_' + type(n).__name__, None)
        if m is None:
            self.ctx.opaque.append((f'expression {type(n).__name__}', self.where(n)))
            return ('opaque', ast.unparse(n))
        r = m(n)
        if T.tsize(r) > TERM_BUDGET:
            # a value whose normal form explodes (typically an error value threaded through nested loops) is of no use to any rule:
            # cut it here so that the evaluation ends with a verdict instead of running into the watchdog
            self.ctx.opaque.append(('term budget exceeded', self.where(n)))
            return ('opaque', f'term too large at {self.where(n)}')
        return r

    def ex_Constant(self, n):
        return Cdec(n.value)

    def ex_Name(self, n):
        if n.id in self.env:
            return self.env[n.id]
        r = self.ctx.model.resolve(self.mod, n.id)
        if isinstance(r, str):
            if r in self.ctx.model.funcs:
                return ('funcref', r)
            return ('classref', r)
        if isinstance(r, tuple) and r[0] == 'ext':
            return ('extref', r[1])
        if isinstance(r, tuple) and r[0] == 'mod':
            return ('modref', r[1])
        if n.id in self.ctx.model.modassign.get(self.mod, {}):
            v = self.ctx.model.modassign[self.mod][n.id]
            if isinstance(v, ast.Constant):
                return Cdec(v.value)
            if n.id in _mutated_globals(self.ctx.model, self.mod):
                return ('global', self.mod, n.id)        # module-level state some function updates: its content at call time is not the initial display
            if isinstance(v, ast.Call) and isinstance(v.func, ast.Name) and v.func.id in ('frozenset', 'set', 'tuple', 'list') and len(v.args) == 1 and not v.keywords:
                try:
                    items = ast.literal_eval(v.args[0])          # frozenset({...}) / tuple([...]) of constants: a known constant collection
                    items = sorted(items, key=repr) if v.func.id in ('frozenset', 'set') else list(items)
                    if all(isinstance(x, (str, int, float, bool)) or x is None for x in items):
                        tag_ = 'set' if v.func.id in ('frozenset', 'set') else v.func.id
                        return (tag_, T.sort_terms(C(x) for x in items) if tag_ == 'set' else tuple(C(x) for x in items))
                except Exception:
                    pass
            try:
                ast.literal_eval(v)          # a literal tuple / list / dict of constants: its value is known
                return self.ex(v)
            except Exception:
                if isinstance(v, ast.Dict) and all(isinstance(k_, ast.Constant) for k_ in v.keys) and \
                        all(isinstance(x, (ast.Lambda, ast.Name, ast.Attribute, ast.Constant)) for x in v.values):
                    return self.ex(v)        # a module-level dispatch table: constant keys, values that are functions / constants
                r_ = self._module_value(n.id, v)
                if r_ is not None:
                    return r_
                ma_ = self.ctx.model.modassign[self.mod]
                if isinstance(v, (ast.Tuple, ast.List, ast.Set)) and all(
                        isinstance(e, ast.Constant) or (isinstance(e, ast.Name) and e.id != n.id and isinstance(ma_.get(e.id), ast.Constant)
                                                        and e.id not in _mutated_globals(self.ctx.model, self.mod)) for e in v.elts):
                    return self.ex(v)        # a display of constants and of names bound to constants in the same module
                return ('global', self.mod, n.id)
        if n.id in ('True', 'False', 'None'):
            return C({'True': True, 'False': False, 'None': None}[n.id])
        import builtins
        if not hasattr(builtins, n.id):
            self.ctx.raises.append(('NameError', self.guard(), self.where(n), 'implicit'))
            self.ctx.event('nameerror', n.id, guard=self.guard(), where=self.where(n))
            return ('opaque', f'NameError: {n.id} is not defined')
        return ('builtin', n.id)

    _PURE_MODULE_NODES = (ast.Constant, ast.Name, ast.Tuple, ast.List, ast.Dict, ast.Set, ast.Subscript, ast.DictComp, ast.ListComp, ast.SetComp, ast.GeneratorExp,
                          ast.comprehension, ast.Load, ast.Store, ast.Call, ast.Attribute, ast.BinOp, ast.Add, ast.IfExp, ast.Compare, ast.Eq, ast.NotEq, ast.In, ast.NotIn,
                          ast.JoinedStr, ast.FormattedValue, ast.Starred)

    def _module_value(self, name, v):
        """the value of a module-level constant written as an expression over literals and other module-level constants (tables derived from tables,
        comprehensions over literal collections, 'a'.join(...)): evaluated once with the ordinary evaluator in an empty scope; None when anything in it
        is not a known value"""
        if not all(isinstance(x, self._PURE_MODULE_NODES) for x in ast.walk(v)):
            return None
        for x in ast.walk(v):
            if isinstance(x, ast.Call) and not (isinstance(x.func, ast.Attribute) and x.func.attr in ('join', 'format', 'items', 'keys', 'values', 'upper', 'lower', 'replace')
                                                or isinstance(x.func, ast.Name) and x.func.id in ('dict', 'tuple', 'list', 'frozenset', 'set', 'zip', 'sorted', 'len', 'str', 'enumerate', 'range')):
                return None
        stack = self.ctx.__dict__.setdefault('_modeval', [])
        cache = self.ctx.__dict__.setdefault('_modvals', {})
        key = (self.mod, name)
        if key in cache:
            return cache[key]
        if key in stack or len(stack) > 6:
            return None
        stack.append(key)
        saved_env, saved_loops, saved_pc = self.env, self.loops, self.pc
        n_unm, n_op = len(self.ctx.unmodelled), len(self.ctx.opaque)
        self.env, self.loops, self.pc = {}, (), []
        try:
            r = self.ex(v)
        except Exception:
            r = None
        finally:
            self.env, self.loops, self.pc = saved_env, saved_loops, saved_pc
            stack.pop()
        if r is not None and (len(self.ctx.unmodelled) != n_unm or len(self.ctx.opaque) != n_op
                              or any(isinstance(x, tuple) and x and x[0] in ('opaque', 'global', 'call', 'attr', 'lv', 'map', 'apply') for x in T.walk(r))):
            r = None
        cache[key] = r
        return r

    def ex_Tuple(self, n):
        return ('tuple', tuple(self.ex(e) for e in n.elts))

    def ex_List(self, n):
        return ('list', tuple(self.ex(e) for e in n.elts))

    def ex_Set(self, n):
        return ('set', T.sort_terms(self.ex(e) for e in n.elts))

    def ex_Dict(self, n):
        items = []
        for k, v in zip(n.keys, n.values):
            if k is None:
                d = self.ex(v)
                if d[0] == 'dict':
                    items.extend(d[1])
                else:
                    items.append((('**', T.key(d)), d))
                continue
            kk = self.ex(k)
            items.append((kk[1] if T.isconst(kk) else ('key', kk), self.ex(v)))
        d = {}
        for k, v in items:
            d[k] = v
        return ('dict', tuple(sorted(d.items(), key=lambda kv: repr(kv[0]))))

    def ex_JoinedStr(self, n):
        parts = []
        for v in n.values:
            if isinstance(v, ast.Constant):
                parts.append(C(v.value))
            else:
                parts.append(self.ex(v.value))
        if all(T.isconst(p) and isinstance(p[1], str) for p in parts):
            return C(''.join(p[1] for p in parts))
        return ('call', 'fstring', tuple(parts), ())

    def ex_UnaryOp(self, n):
        v = self.ex(n.operand)
        if isinstance(n.op, ast.USub):
            if v[0] == 'const' and v[1] == 'inf':
                return ('const', '-inf')
            return T.neg(v)
        if isinstance(n.op, ast.UAdd):
            return v
        if isinstance(n.op, ast.Not):
            return T.not_(self.truth(v))
        if isinstance(n.op, ast.Invert):
            return T.binv(v)
        return ('opaque', ast.unparse(n))

    def binop(self, op, a, b, n):
        if (a[0] == 'table') != (b[0] == 'table') and isinstance(op, (ast.Add, ast.Sub, ast.Mult, ast.Div)):
            # table (op) scalar: element-wise on every column
            tb, other, left = (a, b, True) if a[0] == 'table' else (b, a, False)
            return ('table', tuple((c, self.binop(op, v, other, n) if left else self.binop(op, other, v, n)) for c, v in tb[1]), tb[2])
        if isinstance(op, ast.Add):
            if T.isconst(a) and T.isconst(b) and isinstance(a[1], str) and isinstance(b[1], str):
                return C(a[1] + b[1])
            if (T.isconst(a) and isinstance(a[1], str)) or (T.isconst(b) and isinstance(b[1], str)):
                return ('call', 'strcat', (a, b), ())
            if a[0] in ('list', 'tuple') and b[0] == a[0]:
                return (a[0], a[1] + b[1])
            if a[0] in ('list', 'tuple') or b[0] in ('list', 'tuple'):
                return ('call', 'seqcat', (a, b), ())
            return T.add(a, b)
        if isinstance(op, ast.Sub):
            return T.sub(a, b)
        if isinstance(op, ast.Mult):
            if a[0] in ('list', 'tuple') and T.isconst(b) and isinstance(b[1], int) and b[1] <= 8:
                return (a[0], a[1] * b[1])
            if a[0] in ('list', 'tuple') or b[0] in ('list', 'tuple'):
                return ('call', 'seqrepeat', (a, b), ())
            return T.mul(a, b)
        if isinstance(op, ast.Div):
            return T.div(a, b)
        if isinstance(op, ast.FloorDiv):
            return T.floordiv(a, b)
        if isinstance(op, ast.Mod):
            return T.mod(a, b)
        if isinstance(op, ast.Pow):
            return T.power(a, b)
        if isinstance(op, ast.BitAnd) and {a[0], b[0]} & {'keys'} and {a[0], b[0]} & {'set', 'keys'} and a[0] != b[0]:
            # d.keys() & {k1, k2, ...}: the listed names that are keys of d -- as a value only its emptiness is used (truth()): any(k in d for k in ...)
            ks, st = (a, b) if a[0] == 'keys' else (b, a)
            if all(T.isconst(x) for x in st[1]):
                return ('keysand', ks, st)
        if isinstance(op, ast.BitAnd):
            return T.band([a, b])
        if isinstance(op, ast.BitOr):
            return T.bor([a, b])
        return ('opaque', ast.unparse(n) if n is not None else type(op).__name__)

    def ex_BinOp(self, n):
        return self.binop(n.op, self.ex(n.left), self.ex(n.right), n)

    def ex_BoolOp(self, n):
        # python semantics: `a or b` is a if a is truthy else b (the operand itself, not a boolean); `a and b` is a if a is falsy else b
        isand = isinstance(n.op, ast.And)
        decisive, neutral = (FALSE, TRUE) if isand else (TRUE, FALSE)
        pend = []                                  # operands whose truth value is not known on this path: (value, truth term)
        last = None
        for i, v in enumerate(n.values):
            raw = self.ex(v)
            t = self.fold(raw)
            last = (raw, t)
            if t == decisive:
                break                              # short circuit: later operands not evaluated
            if t == neutral:
                continue
            pend.append((raw, t))
        raw, t = last
        if not pend:
            return raw if not _boolish(raw) else t
        if pend[-1] == last:
            pend = pend[:-1]
        if all(_boolish(r) for r, _ in pend + [last]):
            vs = [tt for _, tt in pend] + [t]
            return T.and_(vs) if isand else T.or_(vs)
        out = raw
        for r, tt in reversed(pend):
            out = T.gamma(tt, out, r) if isand else T.gamma(tt, r, out)
        return out

    def ex_Compare(self, n):
        left = self.ex(n.left)
        out = []
        for op, rn in zip(n.ops, n.comparators):
            right = self.ex(rn)
            out.append(self.compare(type(op).__name__, left, right))
            left = right
        return out[0] if len(out) == 1 else T.and_(out)

    def compare(self, op, a, b):
        # membership in the columns / keys of known containers
        if op in ('In', 'NotIn'):
            if b[0] in ('dict', 'table') and T.isconst(a):
                r = a[1] in dict(b[1])
                return C(r if op == 'In' else not r)
            if b[0] == 'keys' and T.isconst(a) and b[1] is not None:
                r = a[1] in b[1]
                return C(r if op == 'In' else not r)
            if b[0] == 'set':
                b = ('tuple', b[1])
        if op in ('Is', 'IsNot', 'Eq', 'NotEq') and (a == NONE or b == NONE):
            other = b if a == NONE else a
            if (other[0] == 'param' and self.ctx.kinds.get(other[1]) not in (None, 'none')) or other[0] in ('atom', 'col', 'obj', 'nd', 'shaped', 'table', 'dict', 'list', 'tuple', 'arr', 'map', 'funcref', 'cmp0', 'band', 'bor', 'binv', 'lin', 'mul', 'div', 'concatmap', 'filtermap'):
                return C(op in ('IsNot', 'NotEq'))      # typed scenario value: never None
        if op in ('Eq', 'NotEq') and a[0] == b[0] == 'tuple' and len(a[1]) == len(b[1]) and all(T.isconst(x) for x in a[1] + b[1]):
            r = a == b
            return C(r if op == 'Eq' else not r)
        if op in ('Eq', 'NotEq') and ((a[0] == 'tuple' and T.isconst(b)) or (b[0] == 'tuple' and T.isconst(a))):
            if all(T.isconst(x) for x in (a[1] if a[0] == 'tuple' else b[1])):
                return C(op == 'NotEq')
        return T.cmp_(op, a, b)

    def ex_IfExp(self, n):
        c = self.fold(self.ex(n.test))
        if c == TRUE:
            return self.ex(n.body)
        if c == FALSE:
            return self.ex(n.orelse)
        self.pc.append(c)
        a = self.ex(n.body)
        self.pc[-1] = T.not_(c)
        b = self.ex(n.orelse)
        self.pc.pop()
        return T.gamma(c, a, b)

    def ex_Attribute(self, n):
        if isinstance(n.value, ast.Name) and n.value.id not in self.env:
            r = self.ctx.model.resolve(self.mod, n.value.id)
            if isinstance(r, tuple) and r[0] == 'ext':
                dotted = f'{r[1]}.{n.attr}'
                if dotted in ('numpy.nan', 'numpy.NaN'):
                    return T.NAN
                if dotted == 'numpy.inf':
                    return T.PINF
                if dotted == 'numpy.pi':
                    return ('atom', 'pi', 'num')
                return ('extref', dotted)
        b = self.ex(n.value)
        a = n.attr
        if a == 'flat' and b[0] in ('nd', 'shaped', 'call', 'arr', 'map'):
            from .calls import method
            return method(self, b, n.value, 'flatten', [], {}, [], n)         # the elements in C order, as flatten() lists them
        if b[0] == 'obj':
            attrs = self.ctx.heap[b[1]]['attrs']
            if a in attrs:
                return attrs[a]
            m = self.ctx.model.lookup_method(self.ctx.heap[b[1]]['cls'], a)
            if m is not None:
                return ('boundmethod', b, m.qual)
            if a == '__class__':
                return ('classref', self.ctx.heap[b[1]]['cls'])
            if a.startswith('__') and a.endswith('__'):
                return ('attr', b, a)                      # every object has its dunder attributes
            if self.ctx.heap[b[1]].get('constructed'):
                # the attribute was never assigned: AttributeError (or unbounded recursion through a __getattr__ that reads it)
                self.ctx.raises.append(('AttributeError', self.guard(), self.where(n), 'implicit'))
                self.ctx.event('attributeerror', a, (b,), guard=self.guard(), where=self.where(n))
                raise RaisedInCallee(f'missing attribute {a}')
            return ('attr', b, a)
        if b[0] == 'classref' and a == '__name__':
            return C(b[1].rsplit('.', 1)[-1])
        if b[0] == 'extref':
            return ('extref', f'{b[1]}.{a}')
        if b[0] == 'modref':
            r = self.ctx.model.resolve(b[1], a)
            if isinstance(r, str):
                return ('funcref', r)
            return ('extref', f'{b[1]}.{a}')
        if a in ('values',) and b[0] != 'dict':
            from .calls import term_kind
            if b[0] == 'keys' or term_kind(self, b) == 'ndarray':
                return b
            return ('nd', b)
        if a == 'columns':
            if b[0] == 'table':
                return ('keys', tuple(k for k, _ in b[1]), b)
            return ('columns', b)
        if a in ('iloc', 'loc'):
            return ('indexer', a, b)
        if a == 'ndim':
            if b[0] == 'shaped':
                return C(len(b[2]))
            return self.ctx.facts.get(('ndim', b), ('ndim', b))
        if a == 'shape':
            from .calls import shape_of
            return shape_of(b)
        if a == 'T':
            return T.call('transpose', (b,))
        if a == 'size':
            from .calls import dims_of
            b0 = b[1] if b[0] == 'nd' else b
            if b0[0] == 'call' and b0[1] in ('flatnonzero', 'arange', 'diff', 'unique', 'append', 'sort', 'argsort', 'cumsum'):
                return T.length(b0)                 # one-dimensional by construction: size is the length
            d = dims_of(b)
            if d is not None:
                n_ = C(1)
                for x in d:
                    n_ = T.mul(n_, x)
                return n_
        return ('attr', b, a)

    def ex_Subscript(self, n):
        b = self.ex(n.value)
        if isinstance(n.slice, ast.Slice):
            s = n.slice
            lo, hi, st = (self.ex(x) if x is not None else NONE for x in (s.lower, s.upper, s.step))
            if b[0] == 'indexer' and b[1] == 'iloc' and b[2][0] == 'table' and st == NONE:
                # df.iloc[a:b] selects the same rows as df.iloc[range(a, b)]
                k = ('sl', lo if lo != NONE else C(0), hi, NONE)
                return ('table', tuple((c, T.index(v, ('rowsel', k))) for c, v in b[2][1]), T.call('count', (k,)))
            if b[0] == 'indexer':
                return T.call('rowslice', (b[2], lo, hi, st))
            return T.slice_(b, lo, hi, st)
        k = self.ex(n.slice)
        return self.getitem(b, k, n)

    def getitem(self, b, k, n=None):
        if k[0] == 'sl' and len(k) == 4 and b[0] not in ('indexer', 'table', 'records', 'row', 'dict'):
            return T.slice_(b, k[1] if k[1] != C(0) else NONE, k[2], k[3])          # subscript by a slice object
        if b[0] == 'records' and (T.is_int(k) or k[0] == 'lv'):
            return ('row', b[1], k)                     # df.to_dict('records')[i] is row i
        if b[0] == 'row':
            if T.isconst(k):
                tb = b[1]
                if tb[0] == 'table':
                    col = dict(tb[1]).get(k[1])
                    if col is None:
                        self.ctx.raises.append(('KeyError', T.and_(self.pc), self.where(n) if n is not None else '?'))
                        self.ctx.event('keyerror', k[1], (tb,), guard=self.guard(), where=self.where(n) if n is not None else '?')
                        return ('missing', k[1])
                    return T.index(col, b[2])
                return T.index(('idx', tb, k), b[2])
            return ('idx', b, k)
        if b[0] == 'indexer':
            if k[0] == 'tuple' and len(k[1]) == 2 and b[2][0] == 'table' and k[1][0] == ('sl', NONE, NONE, NONE):
                cm = T.strip_nd(k[1][1])
                if cm[0] in ('list', 'tuple') and len(cm[1]) == len(b[2][1]) and all(T.isconst(e) and isinstance(e[1], bool) for e in cm[1]):
                    # df.loc[:, mask] / df.iloc[:, mask]: the columns whose flag is set, all rows
                    return ('table', tuple(cv for cv, e in zip(b[2][1], cm[1]) if e[1]), b[2][2])
            if k[0] == 'tuple' and len(k[1]) == 2:
                return T.call('cell', (b[2], k[1][0], k[1][1]), {'how': C(b[1])})
            if b[2][0] == 'table':       # positional / boolean row selection keeps the columns
                if k[0] == 'rangeobj':
                    k = ('sl', k[1], k[2], NONE)
                kk = T.strip_nd(k)
                if b[1] == 'iloc' and kk[0] == 'call' and kk[1] == 'flatnonzero' and len(kk[2]) == 1 and (T._masklike(T.strip_nd(kk[2][0])) or T.is_boolarr(kk[2][0])):
                    k = T.strip_nd(kk[2][0])             # the rows at the positions where a mask is set == the rows selected by the mask
                return ('table', tuple((c, T.index(v, ('rowsel', k))) for c, v in b[2][1]), T.call('count', (k,)))
            return T.call('rowsel', (b[2], k), {'how': C(b[1])})
        if b[0] == 'table':
            if T.isconst(k) and isinstance(k[1], str):
                col = dict(b[1]).get(k[1])
                if col is None:
                    self.ctx.raises.append(('KeyError', T.and_(self.pc), self.where(n) if n is not None else '?'))
                    self.ctx.event('keyerror', k[1], (b,), guard=self.guard(), where=self.where(n) if n is not None else '?')
                    return ('missing', k[1])
                return col
            if k[0] in ('list', 'tuple') and all(T.isconst(x) and isinstance(x[1], str) for x in k[1]):
                d = dict(b[1])                     # df[[c1, c2, ...]]: the sub-table of those columns
                if all(x[1] in d for x in k[1]):
                    return ('table', tuple(sorted((x[1], d[x[1]]) for x in k[1])), b[2])
            # boolean-mask row selection keeps the columns; anything else (label lists, an Index object ...) is not modelled
            if k[0] in ('cmp0', 'cmp', 'band', 'bor', 'binv', 'col', 'idx', 'atom', 'param', 'not'):
                return ('table', tuple((c, T.index(v, ('rowsel', k))) for c, v in b[1]), T.call('count', (k,)))
            self.ctx.unmodelled.add('DataFrame.__getitem__')
            return T.call('DataFrame.__getitem__', (b, k))
        if b[0] == 'dict':
            if T.isconst(k):
                v = dict(b[1]).get(k[1])
                if v is None:
                    self.ctx.raises.append(('KeyError', T.and_(self.pc), self.where(n) if n is not None else '?'))
                    self.ctx.event('keyerror', k[1], (b,), guard=self.guard(), where=self.where(n) if n is not None else '?')
                    return ('missing', k[1])
                return v
            keys_ = [kk for kk, _ in b[1]]
            if sorted(map(repr, keys_)) == ['False', 'True'] and all(isinstance(kk, bool) for kk in keys_) and k[0] in ('cmp', 'cmp0', 'and', 'or', 'not', 'strtest', 'in'):
                d_ = dict(b[1])
                return T.gamma(self.fold(k), d_[True], d_[False])        # a two-entry table keyed by True / False, looked up with a condition: a conditional
        if b[0] == 'arr' and k[0] != 'lv':
            # read back the last unguarded store to the same constant index
            for i, v, g in reversed(b[2]):
                if i == k and g == TRUE:
                    return v
                if not (T.isconst(i) and T.isconst(k)):
                    break
        return T.index(b, k)

    def ex_Slice(self, n):
        return ('sl',) + tuple(self.ex(x) if x is not None else NONE for x in (n.lower, n.upper, n.step))

    def ex_Starred(self, n):
        return ('starred', self.ex(n.value))

    def ex_Lambda(self, n):
        a = n.args
        if a.vararg or a.kwarg or a.kwonlyargs or a.posonlyargs:
            return ('opaque', 'lambda')
        key = f'lambda@{self.mod}:{n.lineno}:{n.col_offset}'
        if a.defaults:
            # defaults are evaluated when the lambda is written (the early-binding idiom `lambda x, th=thresholds: ...`): one entry per distinct binding
            dv = tuple(self.ex(d) for d in a.defaults)
            key += ':' + str(abs(hash(dv)) % 10**8)
            self.ctx.__dict__.setdefault('lambda_defaults', {})[key] = dict(zip([x.arg for x in a.args[len(a.args) - len(dv):]], dv))
        self.ctx.lambdas[key] = (n, dict(self.env), self.mod, id(self))
        return ('lambda', key)

    def comprehension(self, n, kind):
        r = self.unroll_comprehension(n, kind)
        if r is not None:
            return r
        saved_env, saved_loops = dict(self.env), list(self.loops)
        if kind == 'list' and len(n.generators) == 2 and not n.generators[0].ifs and not n.generators[1].ifs and isinstance(n.generators[1].target, ast.Name):
            # [f(x, c) for x in X for c in (c1, c2)]: the groups [f(x, c1), f(x, c2)] concatenated in the order of X
            g1, g2 = n.generators
            self._iter_guard = TRUE
            key, lv, elem = self.iter_binding(g1.iter)
            if self._iter_guard == TRUE:
                self.assign(g1.target, elem, n)
                self.loops.append(lv)
                items = self.literal_items(g2.iter)
                if items is not None:
                    group = []
                    for it in items:
                        self.assign(g2.target, it, n)
                        group.append(self.ex(n.elt))
                    self.env, self.loops = saved_env, saved_loops
                    return ('concatmap', key, ('list', tuple(group)))
            self.env, self.loops = dict(saved_env), list(saved_loops)
        keys, conds = [], []
        for g in n.generators:
            self._iter_guard = TRUE
            key, lv, elem = self.iter_binding(g.iter)
            if self._iter_guard != TRUE:
                conds.append(self._iter_guard)
                self.pc.append(self._iter_guard)
            self.assign(g.target, elem, n)
            self.loops.append(lv)
            keys.append(key)
            for c in g.ifs:
                cc = self.fold(self.ex(c))
                conds.append(cc)
                self.pc.append(cc)
        if kind == 'dict':
            elt = ('tuple', (self.ex(n.key), self.ex(n.value)))
        else:
            elt = self.ex(n.elt)
        for _ in conds:
            self.pc.pop()
        self.env, self.loops = saved_env, saved_loops
        cond = T.and_(conds)
        key = keys[0] if len(keys) == 1 else ('nest', tuple(keys))
        if cond == TRUE:
            if kind == 'list' and len(keys) == 1 and key[0] == 'range' and key[1] == C(0) and key[3] == C(1) and key[2][0] == 'len':
                src = key[2][1]
                lv_ = ('lv', key, len(saved_loops))
                if elt in (T.index(src, lv_), ('idx', src, lv_)) and any(x[0] == 'poolresult' for x in T.walk(src)):
                    return T.call('list', (src,))          # [x for x in <iterator>] collects the iterator in order: list(<iterator>)
            m = ('map', key, elt)
            ss = T.stride_slice(m)
            return ss if ss is not None else m
        fm = ('filtermap', key, cond, elt)
        ps = T.parity_slice(fm)
        return ps if ps is not None else fm

    def literal_items(self, it_node):
        """elements of a short literal sequence (list/tuple display, keys of a known table, constant range), else None"""
        if isinstance(it_node, ast.Call) and isinstance(it_node.func, ast.Name) and it_node.func.id not in self.env:
            f = it_node.func.id
            if f == 'range':
                a = [self.ex(x) for x in it_node.args]
                if all(T.isconst(x) and isinstance(x[1], int) for x in a) and a:
                    r = range(*[x[1] for x in a])
                    return [C(v) for v in r] if len(r) <= 40 else None
                return None
            if f == 'enumerate' and len(it_node.args) == 1:
                inner = self.literal_items(it_node.args[0])
                return None if inner is None else [('tuple', (C(i), e)) for i, e in enumerate(inner)]
            if f == 'zip':
                cyc = [isinstance(a, ast.Call) and ast.unparse(a.func) in ('cycle', 'itertools.cycle') and len(a.args) == 1 for a in it_node.args]
                # a name bound to a (not yet advanced) itertools.cycle(<literal>) object
                named = [isinstance(a, ast.Name) and self.env.get(a.id, ('?',))[0] == 'cycleiter' and a.id not in self.mutated for a in it_node.args]
                parts = []
                for a, c, nm in zip(it_node.args, cyc, named):
                    if nm:
                        src = T.strip_nd(self.env[a.id][1])
                        parts.append(list(src[1]) if src[0] in ('list', 'tuple') else None)
                    else:
                        parts.append(self.literal_items(a.args[0] if c else a))
                cyc = [c or nm for c, nm in zip(cyc, named)]
                if any(p is None for p in parts) or all(cyc):
                    return None
                n_ = min(len(p) for p, c in zip(parts, cyc) if not c)
                # zip stops at the shortest finite operand; itertools.cycle(seq) repeats seq as often as needed
                parts = [[p[i % len(p)] for i in range(n_)] if c and p else p for p, c in zip(parts, cyc)]
                return [('tuple', tuple(x)) for x in zip(*parts)]
        if isinstance(it_node, ast.Call) and ast.unparse(it_node.func) in ('product', 'itertools.product'):
            parts = [self.literal_items(a) for a in it_node.args]
            if any(p is None for p in parts):
                return None
            import itertools
            out = [('tuple', tuple(x)) for x in itertools.product(*parts)]
            return out if len(out) <= 64 else None
        t0 = t = self.ex(it_node)
        if t[0] == 'nd':
            t = t[1]
        if t[0] == 'keys' and t[1] is not None:
            t = ('list', tuple(C(k) for k in t[1]))
        if t[0] == 'dict' and all(not isinstance(k, tuple) for k, _ in t[1]):
            t = ('list', tuple(C(k) for k, _ in t[1]))          # iterating a dictionary visits its keys
        if t[0] in ('list', 'tuple') and len(t[1]) <= (40 if all(T.isconst(x) for x in t[1]) else 12):
            return list(t[1])
        self._pre[id(it_node)] = t0        # evaluated once: reused when the loop is summarised symbolically
        return None

    def unroll_comprehension(self, n, kind):
        if kind not in ('list', 'gen', 'dict'):
            return None
        targets = set()
        for g in n.generators:
            targets |= _target_names(g.target)
        saved = {k: self.env.get(k) for k in targets}
        out = []

        def rec(gi):
            if gi == len(n.generators):
                out.append(('tuple', (self.ex(n.key), self.ex(n.value))) if kind == 'dict' else self.ex(n.elt))
                return True
            g = n.generators[gi]
            items = self.literal_items(g.iter)
            if items is None:
                return False
            for e in items:
                self.assign(g.target, e, n)
                conds = [self.fold(self.ex(c)) for c in g.ifs]
                if any(c not in (TRUE, FALSE) for c in conds):
                    return False
                if all(c == TRUE for c in conds):
                    if not rec(gi + 1):
                        return False
            return True
        snapshot = dict(self.env)
        ok = rec(0)
        if not ok:
            self.env = snapshot
            return None
        for k, v in saved.items():
            if v is None:
                self.env.pop(k, None)
            else:
                self.env[k] = v
        if kind == 'dict':
            if all(T.isconst(kv[1][0]) for kv in out):
                d = {}
                for kv in out:
                    d[kv[1][0][1]] = kv[1][1]
                return ('dict', tuple(sorted(d.items(), key=lambda x: repr(x[0]))))
            self.env = snapshot
            return None
        return ('list', tuple(out))

    def ex_ListComp(self, n):
        return self.comprehension(n, 'list')

    def ex_GeneratorExp(self, n):
        return self.comprehension(n, 'gen')

    def ex_SetComp(self, n):
        return self.comprehension(n, 'set')

    def ex_DictComp(self, n):
        r = self.unroll_comprehension(n, 'dict')
        if r is not None:
            return r
        return ('dictcomp', self.comprehension(n, 'dict'))

    # ------------------------------------------------------------------ calls
    def ex_Call(self, n):
        from .calls import do_call
        return do_call(self, n)


def _arr_store(cur, k, v, g):
    return T.arr_store(cur, k, v, g)


def _load(t):
    import copy
    t2 = copy.deepcopy(t)
    for x in ast.walk(t2):
        if hasattr(x, 'ctx'):
            x.ctx = ast.Load()
    return t2


def _target_names(t):
    return {x.id for x in ast.walk(t) if isinstance(x, ast.Name)}


def _read_before_write(body, targets=()):
    """names whose value at loop entry can be observed by the body: read before being definitely assigned in the iteration"""
    written = set(targets)
    live = set()

    def loads(node):
        return [x.id for x in ast.walk(node) if isinstance(x, ast.Name) and isinstance(x.ctx, ast.Load)]
    for st in body:
        if isinstance(st, ast.Assign) and all(isinstance(t, ast.Name) for t in st.targets):
            live.update(n for n in loads(st.value) if n not in written)
            written.update(t.id for t in st.targets)
        elif isinstance(st, ast.Assign) and all(isinstance(t, (ast.Name, ast.Tuple)) for t in st.targets):
            live.update(n for n in loads(st.value) if n not in written)
            for t in st.targets:
                written.update(x.id for x in ast.walk(t) if isinstance(x, ast.Name))
        elif isinstance(st, ast.For):
            live.update(n for n in loads(st.iter) if n not in written)
            inner = _read_before_write(st.body, set(written) | _target_names(st.target))
            live.update(n for n in inner if n not in written)
        else:
            live.update(n for n in loads(st) if n not in written)
            # names stored by subscript / mutator calls keep their identity: their previous value matters
            for x in ast.walk(st):
                if isinstance(x, ast.Call) and isinstance(x.func, ast.Attribute) and isinstance(x.func.value, ast.Name):
                    if x.func.value.id not in written:
                        live.add(x.func.value.id)
    return live


TERM_BUDGET = int(os.environ.get('VERIF_TERM_BUDGET', '1000000'))


def _mask_key(m):
    """positions of an element-wise condition: those common to its array operands (the same key zip() gives to the operands themselves)"""
    leaves = []

    def go(t):
        if t[0] in ('cmp0', 'binv', 'not'):
            go(t[2] if t[0] == 'cmp0' else t[1])
        elif t[0] in ('band', 'bor'):
            for x in t[1]:
                go(x)
        elif t[0] == 'cmp':
            go(t[2]); go(t[3])
        elif t[0] == 'lin':
            for x, c in t[2]:
                go(x)
        elif t[0] in ('mul',):
            for x in t[1]:
                go(x)
        elif t[0] == 'div':
            go(t[1]); go(t[2])
        elif not T.is_scalar(t) and not T.isconst(t):
            leaves.append(t)
    go(m)
    keys = T.sort_terms({('range', C(0), T.length(x), C(1)) for x in leaves}) if leaves else (('range', C(0), T.length(m), C(1)),)
    return keys[0] if len(keys) == 1 else ('zip', tuple(keys))


def _boolish(t):
    return t in (TRUE, FALSE) or t[0] in ('cmp', 'cmp0', 'and', 'or', 'not', 'isinstance', 'strtest', 'band', 'bor', 'binv') or \
        (t[0] == 'call' and t[1] in ('any', 'all', 'isnan', 'isfinite', 'isinstance', 'callable', 'hasattr'))


def _alias_pairs(target, it):
    """(loop-variable Name node, iterated expression) pairs: `for x in X`, `for i, x in enumerate(X)`, `for a, b in zip(A, B)`"""
    if isinstance(it, ast.Call) and isinstance(it.func, ast.Name) and not it.keywords:
        if it.func.id == 'enumerate' and len(it.args) == 1 and isinstance(target, ast.Tuple) and len(target.elts) == 2:
            return _alias_pairs(target.elts[1], it.args[0])
        if it.func.id == 'zip' and isinstance(target, ast.Tuple) and len(target.elts) == len(it.args):
            return [p for t_, a in zip(target.elts, it.args) for p in _alias_pairs(t_, a)]
    if isinstance(target, ast.Name):
        return [(target, it)]
    return []


def _returns_inside(body):
    """a return statement somewhere in a loop body (not inside a nested function)"""
    def walk(n):
        for ch in ast.iter_child_nodes(n):
            if isinstance(ch, (ast.FunctionDef, ast.AsyncFunctionDef, ast.Lambda, ast.ClassDef)):
                continue
            if isinstance(ch, ast.Return):
                return True
            if walk(ch):
                return True
        return False
    return any(isinstance(b, ast.Return) or walk(b) for b in body)


class _ReturnToBreak(ast.NodeTransformer):
    def __init__(self, has, ret):
        self.has, self.ret = has, ret

    def visit_FunctionDef(self, n):
        return n

    visit_Lambda = visit_AsyncFunctionDef = visit_FunctionDef

    def visit_For(self, n):
        return n          # a return inside a nested loop leaves that loop first: handled when the nested loop is evaluated

    def visit_Return(self, n):
        return [ast.Assign([ast.Name(self.ret, ast.Store())], n.value if n.value is not None else ast.Constant(None), lineno=n.lineno),
                ast.Assign([ast.Name(self.has, ast.Store())], ast.Constant(True), lineno=n.lineno), ast.Break(lineno=n.lineno)]


def _assigned_names(body, inplace=None):
    out = []
    for s in body:
        for x in ast.walk(s):
            if isinstance(x, (ast.Assign, ast.AugAssign, ast.AnnAssign)):
                ts = x.targets if isinstance(x, ast.Assign) else [x.target]
                for t in ts:
                    for y in ([t] if isinstance(t, ast.Name) else t.elts if isinstance(t, (ast.Tuple, ast.List)) else []):
                        if isinstance(y, ast.Name) and y.id not in out:
                            out.append(y.id)
            elif isinstance(x, ast.For):
                for y in ast.walk(x.target):
                    if isinstance(y, ast.Name) and y.id not in out:
                        out.append(y.id)
            elif inplace is not None and isinstance(x, ast.Expr) and isinstance(x.value, ast.Call) and inplace(x.value):
                if inplace(x.value)[0] not in out:
                    out.append(inplace(x.value)[0])          # f(x, ...) as a statement, f updating x in place and returning it
            elif isinstance(x, ast.Call) and isinstance(x.func, ast.Attribute) and isinstance(x.func.value, ast.Name) \
                    and x.func.attr in ('append', 'pop', 'update', 'extend', 'insert', 'setdefault'):
                if x.func.value.id not in out:
                    out.append(x.func.value.id)
    return out
