"""C06 - consistency burst labels follow the threshold-and-run rule."""
from .. import terms as T
from ..terms import C, NONE
from .. import engine as E
from . import common

THR = ['amp_fraction_threshold', 'amp_consistency_threshold', 'period_consistency_threshold', 'monotonicity_threshold', 'min_n_cycles']


def check(rep, model, tier):
    _doc_defaults(rep, model)
    rep.rule('LABEL-DEF', 'is_burst written by detect_bursts_cycles == run filter (C08 schema) of the conjunction of the four strict '
                          'column > own-threshold comparisons with the first and last entry forced False before filtering (normal-form equality)')
    rep.rule('KEEP-COLS', 'detect_bursts_cycles returns the input table with only the is_burst column added')
    rep.rule('ROUTE', "compute_features(burst_method='cycles') labels concat(burst features, shape features) with detect_bursts_cycles(**threshold_kwargs): "
                      'every threshold key reaches the parameter of the same name, unconditionally, and the labelled table is what is returned')
    rep.rule('DEFAULT-KEYS', 'default / shorthand-expanded threshold dictionaries of BycycleBase only contain keys that are parameters of the detector of that method')
    rep.assumptions += ['hand argument (DESIGN.md C06): q is pointwise antitone in each threshold and the run filter is monotone in q and antitone in m, '
                        'so raising a threshold or min_n_cycles only removes labels', 'pandas comparison of a column with a scalar is element-wise; NaN > x is False']
    fn = model.find('detect_bursts_cycles')
    site = f'{fn.path}:{fn.node.lineno} detect_bursts_cycles'
    S = E.abstract_table('S', E.BURST_COLS['cycles'] + E.SHAPE_COLS + list(E.SAMPLE_COLS['peak'].values()))
    bd = {k: ('param', k) for k in THR}
    missing = [k for k in THR if k not in fn.params]
    if missing:
        rep.unresolved('LABEL-DEF', 'signature', site, f'detector parameters {missing} not found')
        return
    impl, ctx = E.run(model, 'detect_bursts_cycles', dict(bd, **{fn.params[0]: S}))
    spec, _ = E.spec('labels_cycles', dict(bd, S=S))
    if impl is None or impl[0] != 'table':
        rep.violation('LABEL-DEF', 'table', site, expected='the input table with an is_burst column', found=T.brief(impl, 200) if impl else 'no value is returned on this path (raises)')
    else:
        cols = dict(impl[1])
        rep.compare('LABEL-DEF', 'is_burst', site, cols.get('is_burst', ('missing', 'is_burst')), spec, ctx.unmodelled)
        others = {k: v for k, v in cols.items() if k != 'is_burst'}
        if others == dict(S[1]):
            rep.ok('KEEP-COLS', 'detect_bursts_cycles', site, found=f'{len(others)} columns unchanged')
        else:
            changed = sorted(k for k in set(others) | set(dict(S[1])) if others.get(k) != dict(S[1]).get(k))
            rep.violation('KEEP-COLS', 'detect_bursts_cycles', site, expected='input columns unchanged', found=f'changed/added/removed: {changed}')
    from . import common
    rep.rule('EFF-ROVIEW', 'the labelling never writes into a read-only array view of a pandas object (would raise for every table under pandas >= 3)')
    common.roview(rep, model, ['detect_bursts_cycles', 'check_min_burst_cycles'])
    route(rep, model)
    default_keys(rep, model)
    rep.floor('rule instances', len(rep.instances), 8)


def route(rep, model, method='cycles', detector='detect_bursts_cycles', rule='ROUTE'):
    fn = model.find('compute_features')
    det = model.find(detector)
    site = f'{fn.path}:{fn.node.lineno} compute_features[{method}]'
    keys = [p for p in det.params[1:]]
    for rs in (T.TRUE, T.FALSE):
        tk = ('dict', tuple(sorted((k, ('param', 'T_' + k)) for k in keys)))
        res, ctx = E.run(model, 'compute_features', {'burst_method': C(method), 'threshold_kwargs': tk, 'burst_kwargs': NONE, 'return_samples': rs,
                                                    'center_extrema': ('param', 'center_extrema'), 'find_extrema_kwargs': ('param', 'find_extrema_kwargs')},
                         no_inline=E.HEAVY, kinds={'fs': 'num', 'f_range': 'tuple'})
        evs = E.calls_to(ctx, detector)
        inst = f'return_samples={rs[1]}'
        if len(evs) != 1 or evs[0]['guard'] != T.TRUE or evs[0]['loops']:
            rep.violation(rule, inst + ':call', site, expected=f'exactly one unconditional call of {detector}', found=f'{len(evs)} call(s), guards {[T.brief(e["guard"], 40) for e in evs]}')
            continue
        e = evs[0]
        bad = [k for k in keys if e['bound'].get(k) != ('param', 'T_' + k)] + e['problems']
        if method == 'amp':
            bad = [k for k in keys if k != 'min_n_cycles' and e['bound'].get(k) != ('param', 'T_' + k)] + e['problems']
        if bad:
            rep.violation(rule, inst + ':thresholds', site, expected='each threshold key bound to the parameter of the same name',
                          found=f'mismatch {bad}; bound {[(k, T.brief(v, 30)) for k, v in e["bound"].items() if k != det.params[0]]}')
        else:
            rep.ok(rule, inst + ':thresholds', site, found=f'{len(keys)} keys bound by name')
        sh = [x for x in E.calls_to(ctx, 'compute_shape_features') if x['kind'] == 'pkgcall']
        want_sh = {'sig': ('param', 'sig'), 'fs': ('param', 'fs'), 'f_range': ('param', 'f_range'), 'center_extrema': ('param', 'center_extrema'),
                   'find_extrema_kwargs': ('param', 'find_extrema_kwargs')}
        # only the arguments the labels depend on are pinned here; the band-amplitude filter length is C04's BAND-WIRING, return_samples C09's RS-LATE
        if len(sh) == 1 and all(sh[0]['bound'].get(k) == v or (k == 'find_extrema_kwargs' and common.same_extrema_options(model, sh[0]['bound'].get(k, NONE), v))
                                for k, v in want_sh.items()) and sh[0]['guard'] == T.TRUE and not sh[0]['problems']:
            rep.ok(rule, inst + ':shape call', site, found='compute_shape_features(sig, fs, f_range, center_extrema=, find_extrema_kwargs=) bound by name')
        else:
            rep.violation(rule, inst + ':shape call', site, expected={k: T.show(v) for k, v in want_sh.items()},
                          found=[{k: T.brief(v, 40) for k, v in x['bound'].items()} for x in sh] or 'no call')
        tbl = e['bound'].get(det.params[0])
        feats = {c[1] for c in T.walk(tbl) if c[0] == 'call'} if tbl else set()
        need = {'compute_shape_features', 'concat'} | ({'compute_amp_fraction', 'compute_amp_consistency', 'compute_period_consistency', 'compute_monotonicity'}
                                                      if method == 'cycles' else {'compute_burst_fraction'})
        cc = [x for x in T.walk(tbl) if x[0] == 'call' and x[1] == 'concat'] if tbl else []
        axis_ok = bool(cc) and all(dict(x[3]).get('axis', x[2][1] if len(x[2]) > 1 else None) == C(1) for x in cc)
        if need <= feats and axis_ok:
            rep.ok(rule, inst + ':table', site, found=T.brief(tbl, 120))
        else:
            rep.violation(rule, inst + ':table', site, expected=f'concat of burst and shape features ({sorted(need)})', found=T.brief(tbl, 200) if tbl else None)
        call = e['result']
        dsd = model.find('drop_samples_df')
        want = call if rs == T.TRUE else T.call('drop_samples_df', (), {dsd.params[0]: call})
        rep.compare(rule, inst + ':returned', site, res, want, ctx.unmodelled)


def default_keys(rep, model):
    import sa.symeval as SE
    init = model.lookup_method('bycycle.objs.fit.BycycleBase', '__init__') if 'bycycle.objs.fit.BycycleBase' in model.classes else None
    if init is None:
        rep.unresolved('DEFAULT-KEYS', 'BycycleBase.__init__', '-', 'class BycycleBase or its __init__ not found')
        return
    site = f'{init.path}:{init.node.lineno} BycycleBase.__init__'
    for method, detector in (('cycles', 'detect_bursts_cycles'), ('amp', 'detect_bursts_amp')):
        det = model.find(detector)
        short = ('dict', tuple(sorted((p[:-len('_threshold')] if p.endswith('_threshold') else p, ('param', p)) for p in det.params[1:])))
        for label, th in (('defaults', NONE), ('shorthand', short)):
            ctx = SE.Ctx(model)
            oid = ctx.fresh('obj')
            ctx.heap[oid] = {'cls': init.cls, 'attrs': {}}
            E.run(model, init.qual, {'self': ('obj', oid), 'burst_method': C(method), 'thresholds': th}, ctx=ctx)
            got = ctx.heap[oid]['attrs'].get('thresholds')
            if got is None or got[0] != 'dict':
                rep.unresolved('DEFAULT-KEYS', f'{method}:{label}', site, f'self.thresholds is not a dictionary term: {T.brief(got) if got else None}')
                continue
            keys = {k for k, _ in got[1]}
            extra = keys - set(det.params[1:])
            if extra:
                rep.violation('DEFAULT-KEYS', f'{method}:{label}', site, expected=f'keys within {det.params[1:]}', found=sorted(keys))
            elif label == 'shorthand' and dict(got[1]) != {p: ('param', p) for p in det.params[1:]}:
                rep.violation('DEFAULT-KEYS', f'{method}:{label}', site, expected='k -> k_threshold with its own value; min_n_cycles kept',
                              found=T.brief(got, 200))
            else:
                rep.ok('DEFAULT-KEYS', f'{method}:{label}', site, found=T.brief(got, 160))


def _doc_defaults(rep, model):
    from . import common as _c
    _c.doc_defaults(rep, model, ['detect_bursts_cycles'])
