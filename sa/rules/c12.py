"""C12 - 3-D group results sit at the position of their signal."""
from .. import terms as T
from ..terms import C, NONE
from .. import engine as E
from . import grp, common, c11

AX01 = ('tuple', (C(0), C(1)))


def P(i):
    return ('param', f'K{i}')


KINDS = {f'K{i}': 'dict' for i in range(6)}


def run3d(model, kw, axis):
    import sa.symeval as SE
    ctx = SE.Ctx(model, no_inline=grp.NI + ('progress_bar',), kinds=KINDS)
    res, _ = E.run(model, 'compute_features_3d', {'sigs': grp.SIGS3, 'compute_features_kwargs': kw, 'axis': axis, 'progress': ('param', 'progress'),
                                                   'n_jobs': ('param', 'n_jobs'), 'return_samples': ('param', 'return_samples')}, ctx=ctx)
    return res, ctx


def check(rep, model, tier):
    _doc_defaults(rep, model)
    rep.rule('IDX-FLAT', 'axis=(0,1): entry [i][j] reads flat result i*n1 + j (coefficient of the outer loop variable == extent of the inner loop, constant 0), from a '
                         'container with distinct rows, for i < n0, j < n1')
    rep.rule('ORDER-C', 'axis=(0,1): signals are flattened by reshape(n0*n1, n2) and a 2-D option list by flatten(), both in C order; the flat arrays go to compute_features_2d(axis=0) '
                        'with fs, f_range, return_samples, n_jobs, progress forwarded')
    rep.rule('SLICE-DELEGATE', 'axis 0 / 1: slices are mapped in order over zip(slices, options) with an order-preserving pool primitive; the slices are sigs (axis 0) or '
                               'swapaxes(sigs, 0, 1) (axis 1); a shared option set is replicated once per slice of the array actually iterated; the proxy analyses each slice with '
                               'compute_features_2d(slice, axis=None) and its own options')
    rep.rule('SWAP-UNSWAP', 'the result is transposed back (zip(*rows)) exactly when axis == 1 and returned as collected when axis == 0')
    rep.rule('NONINTERFERENCE', 'n_jobs reaches only Pool / the delegated group call, progress only progress_bar / the delegated group call')
    rep.rule('COPY-FIRST', 'compute_features_3d writes through none of its arguments (closed effect summary)')
    rep.rule('INDEX-AGREE', 'BycycleGroup (3-D): models[i][j] is loaded from df_features[i][j] and sigs[i][j], rows distinct (shared with C14)')
    rep.rule('DTABLE', '3-D cells of the option-list shape table (shared with C19): list extents must match the iterated extent')
    rep.assumptions += ['hand argument: C-order reshape(n0*n1, n2) puts signal (i, j) at row i*n1 + j; C11 keeps the order of compute_features_2d',
                        'np.swapaxes(x, 0, 1)[j] is x[:, j]; zip(*rows) transposes a nested list']
    g = model.find('compute_features_3d')
    site = f'{g.path}:{g.node.lineno} compute_features_3d'
    f2 = model.find('compute_features_2d')
    # ---- axis = (0, 1)
    scen01 = {'None': (NONE, NONE), 'dict': (P(0), P(0)), 'list2x2': (('list', (('list', (P(0), P(1))), ('list', (P(2), P(3))))), ('list', (P(0), P(1), P(2), P(3))))}
    for label, (kw, want_kw) in scen01.items():
        res, ctx = run3d(model, kw, AX01)
        evs = [e for e in E.calls_to(ctx, 'compute_features_2d') if e['kind'] == 'pkgcall']
        inst = f'axis=(0,1):options={label}'
        if len(evs) != 1 or evs[0]['guard'] != T.TRUE:
            rep.violation('ORDER-C', inst, site, expected='one unconditional compute_features_2d call', found=f'{len(evs)} call(s)')
            continue
        b = evs[0]['bound']
        want = {'sigs': T.call('reshape', (grp.SIGS3, T.mul(grp.N0, grp.N1), grp.N2)), 'fs': ('param', 'fs'), 'f_range': ('param', 'f_range'),
                'compute_features_kwargs': want_kw, 'axis': C(0), 'return_samples': ('param', 'return_samples'), 'progress': ('param', 'progress')}
        got = {k: T.strip_nd(v) for k, v in b.items()}
        bad = {k: T.brief(got.get(k), 80) if got.get(k) else None for k in want if got.get(k) != want[k]}
        nj = got.get('n_jobs')
        if nj is None or ('param', 'n_jobs') not in set(T.walk(nj)):
            bad['n_jobs'] = T.brief(nj, 60) if nj else None
        if bad or evs[0]['problems']:
            rep.violation('ORDER-C', inst, site, expected={k: T.brief(v, 60) for k, v in want.items()}, found=f'differs {bad} {evs[0]["problems"]}')
        else:
            rep.ok('ORDER-C', inst, site, found='reshape(n0*n1, n2) / C-order option list -> compute_features_2d(axis=0)')
        # read-back
        lv0 = ('lv', ('range', C(0), grp.N0, C(1)), 0)
        lv1 = ('lv', ('range', C(0), grp.N1, C(1)), 1)
        want_idx = T.add(T.mul(lv0, grp.N1), lv1)
        if res is not None and res[0] == 'map' and res[1][0] == 'range' and res[2][0] == 'slice' and res[2][4] == NONE and \
                T.sub(res[2][3], res[2][2]) == grp.N1:
            # rows taken as consecutive slices flat[i*n1 : (i+1)*n1]: element j of row i is flat[i*n1 + j]
            lv1_ = ('lv', ('range', C(0), grp.N1, C(1)), 1)
            res = ('map', res[1], ('map', lv1_[1], T.index(res[2][1], T.add(res[2][2], lv1_))))
        if res is not None and res[0] == 'map' and res[2][0] == 'map' and res[1][0] == 'range' and res[2][1][0] == 'range':
            # a nested comprehension is the same element-wise definition as zeros((n0, n1)).tolist() + a store at [i][j]
            res = ('arr', ('map',), ((('path', (('lv', res[1], 0), ('lv', res[2][1], 1))), res[2][2], T.TRUE),))
        ok = res is not None and res[0] == 'arr' and len(res[2]) == 1
        why = ''
        if ok:
            k, v, gd = res[2][0]
            init = res[1]
            if k[0] == 'path' and len(k[1]) == 2 and k[1][0][0] == 'floordiv' and k[1][1][0] == 'mod' and k[1][0][1] == k[1][1][1] and k[1][0][1][0] == 'lv' \
                    and k[1][0][2] == grp.N1 and k[1][1][2] == grp.N1 and v == T.index(evs[0]['result'], k[1][0][1]) \
                    and k[1][0][1][1] in (('range', C(0), T.length(evs[0]['result']), C(1)), ('range', C(0), T.mul(grp.N0, grp.N1), C(1))):
                # scatter form: for idx over the flat result, out[idx // n1][idx % n1] = flat[idx]  -  the same assignment as the gather form
                # out[i][j] = flat[i*n1 + j] (idx = i*n1 + j, 0 <= j < n1), given one flat entry per signal (which C11 decides)
                k, v = ('path', (lv0, lv1)), T.index(evs[0]['result'], want_idx)
            if k != ('path', (lv0, lv1)):
                ok, why = False, f'stores at {T.brief(k, 100)} (expected [i][j] for i < n0, j < n1)'
            elif v != T.index(evs[0]['result'], want_idx):
                got_i = v[2] if v[0] == 'idx' else v
                ok, why = False, f'reads index {T.show(got_i)} of {"the flat result" if v[0] == "idx" and v[1] == evs[0]["result"] else T.brief(v, 60)} (expected {T.show(want_idx)})'
            elif gd != T.TRUE:
                ok, why = False, f'store only under {T.brief(gd, 60)}'
            elif not (init[0] == 'call' and init[1] == 'zeros' and init[2] and init[2][0] == ('tuple', (grp.N0, grp.N1))) and init[0] != 'map':
                ok, why = False, f'container {T.brief(init, 80)} (rows must be distinct, shape (n0, n1))'
        else:
            why = f'result {T.brief(res, 120) if res else None}'
        if ok:
            rep.ok('IDX-FLAT', inst, site, found=f'[i][j] <- flat[{T.show(want_idx)}]')
        else:
            rep.violation('IDX-FLAT', inst, site, expected=f'[i][j] <- flat[{T.show(want_idx)}] into zeros((n0, n1)).tolist()', found=why)
    # ---- axis 0 / 1
    for ax in (0, 1):
        sl = grp.SIGS3 if ax == 0 else T.call('swapaxes', (grp.SIGS3, C(0), C(1)))
        n_sl = grp.N0 if ax == 0 else grp.N1
        scen = {'None': (NONE, T.call('seqrepeat', (('list', (NONE,)), n_sl))), 'dict': (P(0), T.call('seqrepeat', (('list', (P(0),)), n_sl))),
                'list3': (('list', (P(0), P(1), P(2))), ('list', (P(0), P(1), P(2))))}
        for label, (kw, want_kw) in scen.items():
            inst = f'axis={ax}:options={label}'
            res, ctx = run3d(model, kw, C(ax))
            e = grp.ordered_map(rep, 'SLICE-DELEGATE', inst + ':primitive', site, ctx)
            if e is None:
                continue
            fn_t, it_t = (e['args'] + (NONE, NONE))[:2]
            want_it = T.call('zip', (sl, want_kw))
            okf = fn_t[0] == 'partial' and fn_t[1] == ('funcref', model.find('_proxy_3d').qual) and dict(fn_t[3]) == grp.OWN and not fn_t[2] and not fn_t[4]
            if okf and T.strip_nd(it_t) == want_it:
                rep.ok('SLICE-DELEGATE', inst + ':pairing', site, found=T.brief(want_it, 120))
            else:
                rep.violation('SLICE-DELEGATE', inst + ':pairing', site, expected=f'partial(_proxy_3d, fs, f_range, return_samples) over {T.brief(want_it, 160)}',
                              found=f'{T.brief(fn_t, 120)} over {T.brief(T.strip_nd(it_t), 200)}')
            pres = ('poolresult', e['name'][5:], fn_t, it_t)
            if ax == 0:
                ok, why = grp.collected_in_order(res, pres)
            else:
                ok, why = transposed(res, pres)
            if ok:
                rep.ok('SWAP-UNSWAP', inst, site, found=why)
            else:
                rep.violation('SWAP-UNSWAP', inst, site, expected='list(pool result)' + (' transposed by zip(*rows)' if ax else ' as collected'), found=why)
    c11.proxy_ok(rep, model, 'SLICE-DELEGATE', '_proxy_3d', 'compute_features_2d',
                 lambda Sx, Kx: {f2.params[0]: Sx, 'fs': ('param', 'fs'), 'f_range': ('param', 'f_range'), 'compute_features_kwargs': Kx, 'axis': NONE,
                                 'return_samples': ('param', 'return_samples')}, site)
    c11.noninterference(rep, model, 'compute_features_3d', lambda m, kw, ax: run3d(m, kw, ax), site)
    summ, det, rounds, ro = common.effects(model)
    for name in ('compute_features_3d',):       # the proxy runs in worker processes on pickled copies
        f = model.find(name)
        if summ[f.qual]['mut']:
            a = det[f.qual]
            hits = sorted((ln, c, via) for (w, ln, c, via) in a.mut if w[0] == 'P')
            rep.violation('COPY-FIRST', name, f'{f.path}:{hits[0][0]} {name}', expected='no write through an argument', found='; '.join(c for _, c, _v in hits[:3]))
        else:
            rep.ok('COPY-FIRST', name, f'{f.path}:{f.node.lineno} {name}', found='closed summary has no parameter write')
    from . import c14, c19
    before = len(rep.instances)
    c14.group(rep, model)
    rep.instances[before:] = [i for i in rep.instances[before:] if '3-D' in i['instance'] or 'signatures agree' in i['instance']]
    rep.rule('ARG-NAME', 'BycycleGroup.fit binds its settings to compute_features_3d by name (shared with C14)')
    rep.rule('NO-STALE', 'BycycleGroup.fit, entered with every non-setting attribute unknown (earlier tables, the earlier array, bookkeeping), calls compute_features_3d exactly once and '
                         'independently of that state: no refit shortcut or cached result can stand in for the analysis (shared with C14)')
    c19.dtable(rep, model, 'quick')
    epoch_grid(rep, model)
    rep.floor('rule instances', len(rep.instances), 30)


def epoch_grid(rep, model):
    """axis 0 / 1 and BycycleGroup.fit get their second dimension from epoch_df and wrap every (table, signal) pair with Bycycle.load: the grid is n0 x n1 only
    if the number of epoch tables does not depend on the data, and fit returns only if load accepts every table epoch_df can produce"""
    rep.rule('EPOCH-COUNT', 'the number of tables epoch_df returns is a function of (sig_len, epoch_len) alone: no cycle-table term occurs in the extent of the returned list '
                            '(an epoch in which no cycle ends still yields its - empty - table, so entry [i][j] stays at position j)')
    rep.rule('LOAD-ACCEPTS', 'Bycycle.load, which BycycleGroup.fit applies to every (table, signal) pair, rejects no table that epoch_df produces: the closing extremum of '
                             'the last cycle of an epoch may equal the epoch length (epoch_df keeps cycles with first < sample_next <= last), so a bound check on the '
                             'sample columns must not fire at equality')
    f = model.find('epoch_df')
    site = f'{f.path}:{f.node.lineno} epoch_df'
    for centre in ('peak', 'trough'):
        tab = E.abstract_table('F', list(E.SAMPLE_COLS[centre].values()) + ['period', 'is_burst'])
        r, ctx = E.run(model, f.qual, {f.params[0]: tab, f.params[1]: ('param', 'sig_len'), f.params[2]: ('param', 'epoch_len')})
        if r is None:
            rep.violation('EPOCH-COUNT', centre, site, expected='a list of tables', found='no value is returned')
            continue
        def extent(t):
            # the number of elements of a list-valued term: of both alternatives, of the iteration key (never of the per-element body)
            if t[0] == 'gamma':
                a_, b_ = extent(t[2]), extent(t[3])
                return None if a_ is None or b_ is None else (a_ if a_ == b_ else T.gamma(t[1], a_, b_))
            if t[0] in ('map', 'filtermap'):
                return T.keylen(t[1])
            try:
                return T.length(t)
            except Exception:
                return None
        n = extent(r)
        data = sorted({T.show(x) for x in T.walk(n) if x[0] in ('col', 'nrows') or x == tab}) if n is not None else []
        cond = r[0] == 'filtermap'
        # a count that is known to vary with the data: the groups / distinct values / selected rows of something computed from the table
        varying = [x for x in T.walk(n) if x[0] == 'call' and x[1] in ('method.groupby', 'groupby', 'unique', 'count', 'flatnonzero', 'nonzero0', 'method.unique', 'method.nunique')] \
            if n is not None else []
        if data and not varying and not cond:
            n = None          # mentions the table, but not through a construct whose size is known to depend on its content: no verdict
        if n is None:
            rep.ok('EPOCH-COUNT', centre, site, found='extent of the returned list not in a recognised form: not decided here (see C13 PARTITION)', nontrivial=False)
        elif data or cond:
            rep.violation('EPOCH-COUNT', centre, site, expected='one table per epoch window, whatever the cycle table holds',
                          found=('tables are appended conditionally' if cond else f'the extent {T.brief(n, 120)} depends on the cycle table ({data[:2]})') +
                          ': epochs without a cycle vanish and later epochs move to earlier positions')
        else:
            rep.ok('EPOCH-COUNT', centre, site, found=f'extent {T.brief(n, 140)}')
    from . import c14
    ld = model.funcs.get(f'{c14.BY}.load')
    if ld is None:
        rep.unresolved('LOAD-ACCEPTS', 'Bycycle.load', '-', 'method not found')
        return
    lsite = f'{ld.path}:{ld.node.lineno} Bycycle.load'
    ctx = c14.new_ctx(model, ())
    o = E.make_object(ctx, model, c14.BY, c14.SETTINGS)
    tab = E.abstract_table('F', list(E.SAMPLE_COLS['peak'].values()) + ['period', 'is_burst'])
    sig = ('atom', 'SIG', 'arr')
    ctx.raises.clear()
    E.run(model, ld.qual, {'self': o, ld.params[1]: tab, ld.params[2]: sig, ld.params[3]: ('param', 'fs'), ld.params[4]: ('param', 'f_range')}, ctx=ctx)
    n_bad = 0
    for exc, guard, where, *_r in ctx.raises:
        mentions = any(x[0] in ('col', 'nrows') or x == tab for x in T.walk(guard))
        if not mentions:
            continue
        conj = list(guard[1]) if guard[0] == 'and' else [guard]
        # max(samples) - len(sig) >= 0  fires at equality;  > 0 does not
        at_equality = [c for c in conj if c[0] == 'cmp0' and c[1] == 'GtE' and c[2][0] == 'lin' and c[2][1] >= 0 and
                       any(x[0] == 'len' and x[1] == sig for x, k in c[2][2] if k < 0) and any(k > 0 and any(y[0] == 'col' or y == tab for y in T.walk(x)) for x, k in c[2][2])]
        if at_equality:
            n_bad += 1
            rep.violation('LOAD-ACCEPTS', f'{exc}@{where}', lsite, expected='tables whose largest sample index equals len(sig) are accepted (inclusive epoch end)',
                          found=f'raises when {T.brief(guard, 160)}: BycycleGroup.fit fails for a cycle that ends exactly on an epoch boundary')
        else:
            rep.ok('LOAD-ACCEPTS', f'{exc}@{where}', lsite, found=f'a table-dependent rejection ({T.brief(guard, 100)}) that does not fire at sample == len(sig), or is not in a recognised form: '
                                                                 'not decided here', nontrivial=False)
    if not n_bad:
        rep.ok('LOAD-ACCEPTS', 'Bycycle.load', lsite, found='no rejection of a table at sample == len(sig)')


def transposed(res, pres):
    """[list(dfs) for dfs in zip(*collected)] with collected = list(pool result / progress wrapper)"""
    if res is None or res[0] != 'map':
        return False, f'returned value is {T.brief(res, 160) if res else None}'
    key, elt = res[1], res[2]
    star = None
    if key[0] == 'range' and key[2][0] == 'len' and key[2][1][0] == 'starred':
        star = key[2][1][1]
    elif key[0] == 'zip' and len(key[1]) == 1 and key[1][0][0] == 'over' and key[1][0][1][0] == 'starred':
        star = key[1][0][1][1]
    if star is None:
        return False, f'not a zip(*rows) transposition: {T.brief(key, 120)}'
    ok, why = grp.collected_in_order(star, pres)
    if not ok:
        return False, why
    return True, 'zip(*list(pool result)) -> list per column'


def _doc_defaults(rep, model):
    from . import common as _c
    _c.doc_defaults(rep, model, ['compute_features_3d'])
