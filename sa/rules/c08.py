"""C08 - minimum-run filter removes exactly the short bursts (schema conformance, DESIGN.md C08)."""
from .. import terms as T
from .. import engine as E


def check(rep, model, tier):
    _doc_defaults(rep, model)
    rep.rule('SCHEMA', 'check_min_burst_cycles has the normal form of the run-filter schema: transitions = flatnonzero(diff with falsy pads on '
                       'both sides); runs [on, off) from even/odd transitions; exactly the runs with off-on < min_n_cycles (strict) are cleared '
                       'by storing the constant False to [on:off]; nothing else is stored; the same array is returned; empty input returned unchanged')
    rep.rule('TYPE-GUARD', 'a non-ndarray argument is rejected with ValueError before any work')
    rep.assumptions += ['hand argument (DESIGN.md section 5, C08): the schema maps q to its restriction to maximal runs of length >= m, '
                        'never creates a True, keeps the length, is idempotent and treats end runs like interior ones',
                        'np.diff(prepend, append) / np.flatnonzero / slice stores as documented']
    fn = model.find('check_min_burst_cycles')
    site = f'{fn.path}:{fn.node.lineno} check_min_burst_cycles'
    q, mm = ('param', fn.params[0]), ('param', fn.params[1])
    impl, ctx = E.run(model, 'check_min_burst_cycles', {fn.params[0]: q, fn.params[1]: mm}, kinds={fn.params[0]: 'ndarray'})
    spec, _ = E.spec('min_run_filter', {'q': q, 'm': mm})
    rep.compare('SCHEMA', 'normal-form', site, impl, spec, ctx.unmodelled)
    # obligations of the schema, each visible in the normal form (reported separately for diagnosability)
    stores = [x for x in T.walk(impl) if x[0] == 'arr']
    vals = {s[1] for a in stores for s in a[2]}
    if stores and vals == {T.FALSE} and all(a[1] == q for a in stores):
        rep.ok('SCHEMA', 'only-False-stored-into-the-argument', site, found=f'{sum(len(a[2]) for a in stores)} store(s), values {sorted(map(T.show, vals))}')
    else:
        rep.violation('SCHEMA', 'only-False-stored-into-the-argument', site, expected='every store writes the constant False into the input array',
                      found=f'values {sorted(map(T.show, vals))}, bases {sorted({T.brief(a[1], 40) for a in stores})}')
    # totality: with an array argument the only way out other than the filtered array is the documented range check of the threshold
    rep.rule('RAISES', 'with an ndarray argument the function raises only through the documented range check min_n_cycles in [0, inf] (possibly behind the empty-input '
                       'shortcut): no other condition - a type test of the threshold, a bound taken from the data - turns a valid (array, threshold) pair into an exception')
    bad_ = T.or_([T.cmp_('Lt', mm, T.C(0)), T.cmp_('Gt', mm, T.PINF)])

    def documented(cond):
        cj = list(cond[1]) if cond[0] == 'and' else [cond]
        rest = [c for c in cj if c != bad_]
        return len(rest) < len(cj) and all(_len_test(c, q) for c in rest)
    other = [r for r in ctx.raises if not (r[0] == 'ValueError' and documented(r[1]))]
    if other:
        rep.violation('RAISES', 'ndarray argument', site, expected=f'only ValueError when {T.show(bad_)}',
                      found='; '.join(f'{r[0]} when {T.brief(r[1], 100)}' for r in other[:3]))
    else:
        rep.ok('RAISES', 'ndarray argument', site, found=f'{len(ctx.raises)} raise(s), all the documented range check')
    # type guard: with a list argument the function must raise ValueError and return nothing
    res2, ctx2 = E.run(model, 'check_min_burst_cycles', {fn.params[0]: ('list', (T.TRUE, T.FALSE))})
    if res2 is None and any(r[0] == 'ValueError' and r[1] == T.TRUE for r in ctx2.raises):
        rep.ok('TYPE-GUARD', 'list argument', site, found='raise ValueError')
    else:
        rep.violation('TYPE-GUARD', 'list argument', site, expected='unconditional ValueError', found=f'result {T.brief(res2) if res2 else None}, raises {[(r[0], T.brief(r[1], 40)) for r in ctx2.raises]}')
    rep.floor('schema obligations', len(rep.instances), 3)


def _len_test(c, q):
    """a test of the array's length against zero (the empty-input shortcut), in either polarity"""
    if c[0] == 'not':
        return _len_test(c[1], q)
    return c[0] == 'cmp' and c[1] in ('Eq', 'NotEq') and {c[2], c[3]} == {T.C(0), T.length(q)}


def _doc_defaults(rep, model):
    from . import common as _c
    _c.doc_defaults(rep, model, ['check_min_burst_cycles'])
