"""C13 - epoched (axis=None) analysis partitions the flattened analysis."""
from .. import terms as T
from ..terms import C, NONE
from .. import engine as E
from . import grp, common


def check(rep, model, tier):
    rep.rule('PARTITION', 'epoch_df == reference (sa/refspec/frames.py): boundaries k*L; epoch k takes, in order, the rows whose CLOSING side extremum c satisfies '
                          'k*L < c <= (k+1)*L (half-open on the left, shared boundaries), every sample_* column shifted by k*L and nothing else changed')
    rep.rule('FLAT-ONCE', 'compute_features_2d(axis=None): exactly one compute_features call, on sigs.flatten(), return_samples=True, with the first option set and '
                          'its centre extremum; then epoch_df(table, len(flattened), len(sigs[0]))')
    rep.rule('RELABEL-ONLY-LIST', 'with a single shared option set (None / dict) no detector runs on an epoch table and the epoched flat analysis is returned; with a per-epoch '
                                  'list, epoch k is re-labelled with option set k (its burst_method, its thresholds), k = 0..n-1, and stored at position k')
    rep.rule('EMPTY-EPOCH', 'the detectors used for re-labelling are total on an empty table (constant-index stores are guarded by a length test)')
    rep.assumptions += ['hand argument: a closing extremum c in (0, n] lies in exactly one (k*L, (k+1)*L]', 'DataFrame.iloc[rows] keeps row order']
    fn = model.find('epoch_df')
    site = f'{fn.path}:{fn.node.lineno} epoch_df'
    for centre in ('peak', 'trough'):
        S = E.abstract_table('S', E.BURST_COLS['cycles'] + ['is_burst'] + E.SHAPE_COLS + list(E.SAMPLE_COLS[centre].values()))
        impl, ctx = E.run(model, 'epoch_df', {fn.params[0]: S, fn.params[1]: ('param', 'sig_len'), fn.params[2]: ('param', 'epoch_len')})
        spec, _ = E.spec('epochs', {'S': S, 'sig_len': ('param', 'sig_len'), 'epoch_len': ('param', 'epoch_len'), 'centre': C(centre)})
        rep.compare('PARTITION', centre, site, impl, spec, ctx.unmodelled)
        ke = [e for e in ctx.trace if e['kind'] == 'keyerror']
        if ke:
            rep.violation('PARTITION', f'{centre}:schema', ke[0]['where'], expected='only columns of the table\'s centring are read', found=f'missing column {ke[0]["name"]!r}')
    g = model.find('compute_features_2d')
    gsite = f'{g.path}:{g.node.lineno} compute_features_2d[axis=None]'
    K = grp.K
    nobm = grp.without(K(2), 'burst_method')         # an option set without burst_method: the documented default 'cycles' applies
    scen = {'None': NONE, 'dict': K(0), 'list3': ('list', (K(0), K(1, 'amp'), nobm)), 'list2': ('list', (K(0), K(1, 'amp'))),
            'list2same': ('list', (K(0), K(0)))}          # two epochs given equal option sets are still re-labelled one by one
    per_epoch = {'list3': [('cycles', 'tk0'), ('amp', 'tk1'), ('cycles', 'tk2')], 'list2': [('cycles', 'tk0'), ('amp', 'tk1')], 'list2same': [('cycles', 'tk0'), ('cycles', 'tk0')]}
    for label, kw in scen.items():
        res, ctx = grp.run2d(model, kw, NONE)
        cfs = [e for e in E.calls_to(ctx, 'compute_features') if e['kind'] == 'pkgcall']
        eps = [e for e in E.calls_to(ctx, 'epoch_df') if e['kind'] == 'pkgcall']
        if len(cfs) != 1 or len(eps) != 1 or cfs[0]['guard'] != T.TRUE or eps[0]['guard'] != T.TRUE:
            rep.violation('FLAT-ONCE', f'{label}:calls', gsite, expected='one compute_features and one epoch_df call', found=f'{len(cfs)} / {len(eps)}')
            continue
        b = cfs[0]['bound']
        first = kw if label == 'dict' else kw[1][0] if label.startswith('list') else None
        want = {'sig': T.call('flatten', (grp.SIGS2,)), 'fs': ('param', 'fs'), 'f_range': ('param', 'f_range'), 'return_samples': T.TRUE,
                'center_extrema': dict(first[1])['center_extrema'] if first else C('peak')}
        if first:
            for k in ('burst_method', 'threshold_kwargs', 'burst_kwargs', 'find_extrema_kwargs'):
                want[k] = dict(first[1])[k]
        bad = {k: T.brief(b.get(k), 60) if b.get(k) else None for k in want if b.get(k) != want[k]}
        extra = set(b) - set(want)
        if bad or extra or cfs[0]['problems']:
            rep.violation('FLAT-ONCE', f'{label}:arguments', gsite, expected={k: T.brief(v, 50) for k, v in want.items()}, found=f'differs {bad}; unexpected {sorted(extra)}; {cfs[0]["problems"]}')
        else:
            rep.ok('FLAT-ONCE', f'{label}:arguments', gsite, found='flattened signal, return_samples=True, first option set')
        eb = eps[0]['bound']
        ep = model.find('epoch_df')
        wante = {ep.params[0]: cfs[0]['result'], ep.params[1]: T.mul(grp.N0, grp.N2), ep.params[2]: grp.N2}
        if eb == wante:
            rep.ok('FLAT-ONCE', f'{label}:epoching', gsite, found='epoch_df(flat table, n0*n2, n2)')
        else:
            rep.violation('FLAT-ONCE', f'{label}:epoching', gsite, expected={k: T.brief(v, 60) for k, v in wante.items()}, found={k: T.brief(v, 60) for k, v in eb.items()})
        dets = [e for e in ctx.trace if e['kind'] == 'pkgcall' and e['name'].rsplit('.', 1)[-1] in ('detect_bursts_cycles', 'detect_bursts_amp')]
        if not label.startswith('list'):
            if dets or res != eps[0]['result']:
                rep.violation('RELABEL-ONLY-LIST', f'{label}:no re-labelling', gsite, expected='the epoched flat analysis is returned untouched',
                              found=f'{len(dets)} detector call(s) on epoch tables: {[T.brief(d["args"][0], 60) if d["args"] else None for d in dets]}; returns {T.brief(res, 100)}')
            else:
                rep.ok('RELABEL-ONLY-LIST', f'{label}:no re-labelling', gsite, found='no detector call; epoch_df result returned')
            continue
        # list: epoch k re-labelled with option set k
        methods = [m for m, _ in per_epoch[label]]
        nk = len(methods)
        ok = len(dets) == nk
        why = []
        for k_, d in enumerate(dets[:nk]):
            name = d['name'].rsplit('.', 1)[-1]
            if name != ('detect_bursts_cycles' if methods[k_] == 'cycles' else 'detect_bursts_amp'):
                ok = False
                why.append(f'epoch {k_}: detector {name} for burst_method {methods[k_]!r}')
            if tuple(d.get('extra', ())) != (('param', per_epoch[label][k_][1]),):
                ok = False
                why.append(f'epoch {k_}: thresholds {[T.brief(x, 40) for x in d.get("extra", ())]}')
            tbl = d['args'][0] if d['args'] else None
            if tbl is None or not is_element(tbl, eps[0]['result'], k_):
                ok = False
                why.append(f'epoch {k_}: table {T.brief(tbl, 80) if tbl else None}')
            if d['guard'] != T.TRUE:
                ok = False
                why.append(f'epoch {k_}: only under {T.brief(d["guard"], 60)}')
        stores = res[2] if res is not None and res[0] == 'arr' else ()
        if [s[0] for s in stores] != [C(i) for i in range(nk)] or any(s[1] != dets[i]['result'] for i, s in enumerate(stores[:len(dets)])):
            ok = False
            why.append(f'stores {[(T.show(s[0]), T.brief(s[1], 50)) for s in stores]}')
        if ok:
            rep.ok('RELABEL-ONLY-LIST', f'{label}:per-epoch', gsite, found=f'epoch k labelled by detector(method k)(epoch k, **thresholds k) for k < {nk} (default method cycles)')
        else:
            rep.violation('RELABEL-ONLY-LIST', f'{label}:per-epoch', gsite, expected=f'{nk} detector calls, epoch k with option set k, stored at k', found='; '.join(why) or f'{len(dets)} detector calls')
    # EMPTY-EPOCH
    for det, cols in (('detect_bursts_cycles', E.BURST_COLS['cycles']), ('detect_bursts_amp', E.BURST_COLS['amp'])):
        f = model.find(det)
        S = E.abstract_table('S', cols + E.SHAPE_COLS)
        r, ctx = E.run(model, det, {f.params[0]: S})
        lab = dict(r[1]).get('is_burst') if r and r[0] == 'table' else None
        dsite = f'{f.path}:{f.node.lineno} {det}'
        if lab is None:
            rep.violation('EMPTY-EPOCH', det, dsite, expected='a table with an is_burst column', found=T.brief(r, 160) if r else 'no value returned')
            continue
        # the label term specialised to a table without rows (nrows(S) := 0, conditions and guards re-evaluated): whatever element store at a constant index is
        # still performed then is performed on an empty array
        lab0 = T.subst(lab, lambda y: C(0) if y == ('nrows', 'S') else None)
        unguarded = [s for a in T.walk(lab0) if a[0] == 'arr' for s in a[2]
                     if T.isconst(s[0]) and isinstance(s[0][1], int) and not any(x[0] in ('nrows', 'len') for x in T.walk(s[2]))]
        if unguarded:
            rep.violation('EMPTY-EPOCH', det, dsite, expected='element stores guarded by a length test (an epoch may contain no cycle)',
                          found=f'unguarded store at constant index {[T.show(s[0]) for s in unguarded]}: IndexError on an empty table')
        else:
            rep.ok('EMPTY-EPOCH', det, dsite, found='no unguarded constant-index store')
    common.roview(rep, model, ['detect_bursts_cycles', 'detect_bursts_amp', 'epoch_df'])
    rep.rule('EFF-ROVIEW', 'no write into a read-only array view of a pandas object on the re-labelling path')
    rep.rule('EPOCH-OWN-OPTIONS', 'the per-epoch loop reads burst_method / threshold_kwargs of each option set without consuming them: an option set listed at two positions '
                                  '([kw] * n, or [a, b, a]) stays ONE object after deepcopy, so a pop while re-labelling the first of them leaves the others with defaults')
    for label in ('list2', 'list3'):
        res, ctx = grp.run2d(model, scen[label], NONE)
        eaten = sorted({(T.show(e['args'][1]), e['where']) for e in ctx.trace if e['kind'] == 'mutate' and e['name'] == 'pop' and e.get('element_of')
                        and e['args'][1] in (C('burst_method'), C('threshold_kwargs'))})
        if eaten:
            rep.violation('EPOCH-OWN-OPTIONS', label, eaten[0][1] or gsite, expected='options read with .get / [] (or popped from a per-iteration copy)',
                          found=f'popped from the list element itself: {[k for k, _ in eaten]}', key='EPOCH-OWN-OPTIONS@' + label)
        else:
            rep.ok('EPOCH-OWN-OPTIONS', label, gsite, found='no consuming read of a per-epoch option set')
    rep.rule('COPY-FIRST', 'compute_features_2d consumes the per-epoch option dictionaries with pop(): it does so on its own deep copy and writes through none of its arguments, so a '
                           'per-epoch list re-labels each epoch with its own thresholds on every call, not only the first (shared with C11 / C15)')
    common.args_intact(rep, model, ['compute_features_2d', 'epoch_df'], rule='COPY-FIRST', why='the per-epoch option list is read again by the next call')
    rep.floor('rule instances', len(rep.instances), 15)


def is_element(t, container, k):
    """t denotes element k of the list ``container`` (possibly after earlier stores at other constant positions)"""
    if t == T.index(container, C(k)):
        return True
    if t[0] == 'idx' and t[2] == C(k):
        base = t[1]
        if base == container:
            return True
        if base[0] == 'arr' and base[1] == container and all(T.isconst(s[0]) and s[0] != C(k) for s in base[2]):
            return True
    return False
