"""C05 - burst features equal their documented definitions."""
from .. import terms as T
from ..terms import C
from .. import engine as E

DIRECTIONS = ('both', 'next', 'last')


def feature_table(centre):
    return E.abstract_table('S', E.SHAPE_COLS + list(E.SAMPLE_COLS[centre].values()))


def compare_features(rep, model, rule_prefix=''):
    """shared with C09: returns {(centre, what): impl term}"""
    n = 0
    out = {}
    for centre in ('peak', 'trough'):
        S = feature_table(centre)
        for d in DIRECTIONS:
            for fname, sname, rule, extra in (('compute_amp_consistency', 'amp_consistency', 'AMP-CONSIST', {'centre': C(centre)}),
                                              ('compute_period_consistency', 'period_consistency', 'PERIOD-CONSIST', {})):
                fn = model.find(fname)
                impl, ctx = E.run(model, fname, {fn.params[0]: S, 'direction': C(d)})
                spec, _ = E.spec(sname, dict({'S': S, 'direction': C(d)}, **extra))
                rep.compare(rule, f'{centre}:{d}', f'{fn.path}:{fn.node.lineno} {fname}', impl, spec, ctx.unmodelled)
                out[(centre, sname, d)] = impl
                n += 1
        fn = model.find('compute_monotonicity')
        impl, ctx = E.run(model, 'compute_monotonicity', {fn.params[0]: S, fn.params[1]: ('param', 'sig')})
        spec, _ = E.spec('monotonicity', {'S': S, 'x': ('param', 'sig'), 'centre': C(centre)})
        rep.compare('MONOTONICITY', centre, f'{fn.path}:{fn.node.lineno} compute_monotonicity', impl, spec, ctx.unmodelled)
        out[(centre, 'monotonicity')] = impl
        fn = model.find('compute_amp_fraction')
        impl, ctx = E.run(model, 'compute_amp_fraction', {fn.params[0]: S})
        spec, _ = E.spec('amp_fraction', {'S': S})
        rep.compare('AMP-FRACTION', centre, f'{fn.path}:{fn.node.lineno} compute_amp_fraction', impl, spec, ctx.unmodelled)
        out[(centre, 'amp_fraction')] = impl
        n += 2
    return n, out


def check(rep, model, tier):
    _doc_defaults(rep, model)
    rep.rule('AMP-FRACTION', 'amp_fraction == average rank of volt_amp / number of rows (Series.rank defaults: average, ascending, not pct)')
    rep.rule('AMP-CONSIST', 'amp_consistency, per centring and direction: NaN at both ends; for interior k the nanmin over the documented '
                            'adjacent rise/decay min/max ratios (centring-dependent neighbours), negatives clamped to 0')
    rep.rule('PERIOD-CONSIST', 'period_consistency per direction: NaN at both ends; min/max ratio with previous / next period, np.min of both for "both"')
    rep.rule('MONOTONICITY', 'monotonicity per centring: mean of (fraction of strictly positive steps over the inclusive rise window, '
                             'fraction of strictly negative steps over the inclusive decay window)')
    rep.rule('WIRING', 'compute_burst_features(burst_method="cycles") stores the four features under their documented column names with default direction "both"')
    rep.rule('DIRECTION-OPTS', 'the options accepted by check_param_options equal the directions handled')
    rep.assumptions += ['numpy semantics of min/max/nanmin/mean/diff/rank as documented (model table)',
                        'the feature table has the documented schema of its centring (C04)',
                        'np.nanmin of an all-NaN list is NaN, so the explicit all-NaN test is redundant (normaliser identity)']
    n, _ = compare_features(rep, model)
    # WIRING: the 'cycles' branch of compute_burst_features
    fn = model.find('compute_burst_features')
    for centre in ('peak', 'trough'):
        S = feature_table(centre)
        names = {'compute_amp_fraction': 'amp_fraction', 'compute_amp_consistency': 'amp_consistency',
                 'compute_period_consistency': 'period_consistency', 'compute_monotonicity': 'monotonicity'}
        res, ctx = E.run(model, 'compute_burst_features', {fn.params[0]: S, fn.params[1]: ('param', 'sig'), 'burst_method': C('cycles')},
                         no_inline=tuple(names))
        site = f'{fn.path}:{fn.node.lineno} compute_burst_features[cycles,{centre}]'
        if res is None or res[0] != 'table':
            rep.violation('WIRING', centre, site, expected='a table with the four burst-feature columns', found=T.brief(res, 200) if res else 'no value is returned on this path (raises)')
            continue
        cols = dict(res[1])
        want = {}
        for f, col in names.items():
            evs = E.calls_to(ctx, f)
            f_ = model.find(f)
            exp = {f_.params[0]: S}
            if f == 'compute_monotonicity':
                exp[f_.params[1]] = ('param', 'sig')
            if 'direction' in f_.params:
                exp['direction'] = C('both')
            want[col] = T.call(f, (), exp)
        if set(cols) != set(want):
            rep.violation('WIRING', f'{centre}:columns', site, expected=sorted(want), found=sorted(cols))
        for col in want:
            if col in cols:
                rep.compare('WIRING', f'{centre}:{col}', site, cols[col], want[col], ctx.unmodelled)
                n += 1
    rep.floor('burst feature definitions compared', n, 16 + 8)


def _doc_defaults(rep, model):
    from . import common as _c
    _c.doc_defaults(rep, model, ['compute_burst_features', 'compute_amp_consistency', 'compute_period_consistency'])
