"""C20 - plots draw the analysis they are given (data handed to the drawing primitives)."""
import ast
from .. import terms as T
from ..terms import C, NONE
from .. import engine as E
from .. import symeval as SE

XLIM = ('tuple', (('atom', 'x0', 'num'), ('atom', 'x1', 'num')))
TK = ('dict', (('amp_fraction_threshold', ('param', 't_af')), ('min_n_cycles', ('param', 'mn')), ('monotonicity_threshold', ('param', 't_mo'))))
SIG, FS = ('param', 'sig'), ('param', 'fs')


def table(centre):
    return E.abstract_table('S', E.BURST_COLS['cycles'] + ['is_burst'] + E.SHAPE_COLS + list(E.SAMPLE_COLS[centre].values()))


def times_of(sig):
    return time_axis(T.length(sig) if sig[0] != 'param' else ('len', sig))


def repo_eval(model, name, bound):
    r, ctx = E.run(model, name, bound)
    return r


def events(ctx, name):
    return [e for e in ctx.trace if e['kind'] in ('call', 'pkgcall') and e['name'].rsplit('.', 1)[-1] == name]


def check(rep, model, tier):
    _doc_defaults(rep, model)
    rep.rule('SCHEMA', 'no plotting path reads a column that does not exist in the table of either centring')
    rep.rule('MASK-WINDOW', 'plot_burst_detect_summary highlights exactly [last side, next side] (inclusive) of the cycles labelled is_burst in the windowed table, offset by the '
                            'first plotted sample int(fs*xlim[0]) (0 without limits), on the windowed z-scored signal and its times')
    rep.rule('WINDOW-END', 'limit_df keeps a cycle whose closing side is the sample at the closing limit while the windowed time axis stops one sample earlier: every index '
                           'into the windowed times that comes from a cycle side is guarded (summary spans) or the cycle is removed first (parameter panel: next side < len(times))')
    rep.rule('PANEL-KEY', 'for each threshold key except min_n_cycles, in order, the panel on axes[k+1] plots column key-"_threshold" of the windowed table against thresholds[key]; '
                          'markers come from plot_cyclepoints_df(windowed table, full z-scored signal, fs, xlim) on axes[0]')
    rep.rule('PANEL-DATA', 'plot_burst_detect_param plots the parameter of the cycles inside the window at their centre-extremum times (interp) or from side to side (steps), '
                           'with the threshold line [thresh, thresh] over (times[0], times[-1])')
    rep.rule('XY-SAME-INDEX', 'plot_cyclepoints_array: every marker series is (times[cps], sig[cps]) with the same index term cps = points inside the window minus the window offset, '
                              'in the order peaks, troughs, rises, decays; plot_cyclepoints_df hands over the centre / side / midpoint columns of the table\'s centring')
    rep.assumptions += ['matplotlib / neurodsp drawing primitives render the arrays they are given (not analysed)', 'float rounding in points < times[-1]*fs and int(times[0]*fs) is not decided',
                        'the window is defined by the reference selections of sa/refspec/frames.py (the ones C18 compares limit_df / limit_signal with)']
    time_axis_rule(rep, model)
    from . import common as _common
    _common.grid_round(rep, model, ['plot_burst_detect_summary', 'plot_cyclepoints_array', 'limit_df'])
    summary(rep, model)
    param_panel(rep, model)
    cyclepoints(rep, model)
    rep.floor('rule instances', len(rep.instances), 30)


def time_axis(n):
    """sample k of an n-sample signal is drawn at k / fs: np.arange(n) / fs has one element per sample by construction (a float-step
    np.arange(0, n / fs, 1 / fs) has ceil((n / fs) / (1 / fs)) elements in floating point, which is n + 1 for e.g. n = 4001, fs = 500)"""
    return T.div(T.call('arange', (n,)), FS)


def time_axis_rule(rep, model):
    rep.rule('TIME-AXIS', 'the three plot functions build their time axis as np.arange(len(sig)) / fs - exactly one time per sample - and hand that axis (or its '
                          'limit_signal window) to every drawing call; a float-step np.arange(0, len(sig) / fs, 1 / fs) can have one element too many')
    for fname in ('plot_burst_detect_summary', 'plot_burst_detect_param', 'plot_cyclepoints_array'):
        f = model.find(fname)
        site = f'{f.path}:{f.node.lineno} {fname}'
        float_step = [ast.unparse(x) for x in ast.walk(f.node) if isinstance(x, ast.Call) and ast.unparse(x.func) in ('np.arange', 'numpy.arange', 'arange')
                      and len(x.args) == 3 and any(isinstance(y, ast.Div) for a in x.args[1:] for y in ast.walk(a))]
        if float_step:
            rep.violation('TIME-AXIS', fname, site, expected='np.arange(len(sig)) / fs', found=f'float-step arange: {float_step[0]}', key=f'TIME-AXIS@{fname}')
        else:
            rep.ok('TIME-AXIS', fname, site, found='no float-step arange')


def keyerrors(rep, ctx, inst, site):
    ke = [e for e in ctx.trace if e['kind'] == 'keyerror']
    if ke:
        rep.violation('SCHEMA', inst, ke[0]['where'] or site, expected='only columns of the table\'s centring are read', found=f'column {ke[0]["name"]!r} does not exist: KeyError')
        return True
    rep.ok('SCHEMA', inst, site, found='all column reads resolve')
    return False


def summary(rep, model):
    f = model.find('plot_burst_detect_summary')
    site = f'{f.path}:{f.node.lineno} plot_burst_detect_summary'
    zs = T.call('zscore', (SIG,))
    times_full = time_axis(('len', zs))
    for centre in ('peak', 'trough'):
        side = 'trough' if centre == 'peak' else 'peak'
        S = table(centre)
        for xn, xlim in (('None', NONE), ('given', XLIM)):
            for por in (T.FALSE, T.TRUE):
                inst = f'{centre}:xlim={xn}:only_result={por[1]}'
                ctx = SE.Ctx(model, no_inline=('plot_cyclepoints_df', 'plot_burst_detect_param'))
                E.run(model, f.qual, {f.params[0]: S, 'sig': SIG, 'fs': FS, 'threshold_kwargs': TK, 'xlim': xlim, 'plot_only_result': por,
                                      'interp': ('param', 'interp'), 'figsize': ('param', 'figsize')}, ctx=ctx)
                if keyerrors(rep, ctx, 'summary:' + inst, site):
                    continue
                if xlim == NONE:
                    Sw, sigw, timesw, start = S, zs, times_full, C(0)
                else:
                    x0, x1 = XLIM[1]
                    Sw = E.spec('limit_table', {'S': S, 'fs': FS, 'start': x0, 'stop': x1, 'reset_indices': T.FALSE, 'centre': C(centre)})[0]
                    lw = E.spec('limit_sig', {'times': times_full, 'sig': zs, 'start': x0, 'stop': x1})[0]
                    sigw, timesw, start = lw[1][0], lw[1][1], x0
                pb = events(ctx, 'plot_bursts')
                want_mask, _ = E.spec('burst_mask', {'S': Sw, 'n_samples': T.length(sigw), 'fs': FS, 'start': start, 'side': C(side)}, repo=model)
                if len(pb) != 1 or pb[0]['guard'] != T.TRUE:
                    rep.violation('MASK-WINDOW', inst, site, expected='one plot_bursts call', found=f'{len(pb)} call(s)')
                else:
                    a = pb[0]['args']
                    if len(a) >= 3 and a[0] == timesw and a[1] == sigw:
                        rep.compare('MASK-WINDOW', inst, pb[0]['where'] or site, a[2], want_mask, ctx.unmodelled)
                    else:
                        rep.violation('MASK-WINDOW', inst + ':trace', pb[0]['where'] or site, expected=f'(windowed times, windowed z-scored signal, mask)',
                                      found=[T.brief(x, 120) for x in a[:2]])
                # spans drawn from cycle sides index the windowed time axis: limit_df keeps a cycle whose next side is the sample AT the closing
                # limit (inclusive bound), limit_signal keeps times < stop (exclusive), so that index must be guarded
                if xlim != NONE:
                    spans = [e for e in ctx.trace if e['kind'] == 'call' and e['name'].endswith('axvspan')]
                    bad_sp = []
                    for e in spans:
                        idxs = [x[2] for a_ in e['args'][1:3] for x in [T.strip_nd(a_)] if x[0] == 'idx' and T.strip_nd(x[1]) == timesw]
                        hi = idxs[-1] if len(idxs) == 2 else None
                        need = {T.cmp_('Lt', hi, T.length(timesw)), T.cmp_('Lt', hi, ('len', timesw))} if hi is not None else set()
                        conj = {T.strip_nd(c) for c in (e['guard'][1] if e['guard'][0] == 'and' else [e['guard']])}
                        if not ({T.strip_nd(x) for x in need} & conj):
                            bad_sp.append(e['where'])
                    if bad_sp:
                        rep.violation('WINDOW-END', inst + ':spans', bad_sp[0] or site, expected='a span ending at times[next side] is drawn only when next side < len(times)',
                                      found=f'{len(bad_sp)} axvspan call(s) index the windowed time axis with a cycle side that can equal its length (IndexError when the '
                                            'view ends exactly on a cycle boundary)', key='WINDOW-END@summary:' + inst)
                    elif spans:
                        rep.ok('WINDOW-END', inst + ':spans', site, found=f'{len(spans)} span call(s), each guarded by next side < len(times)')
                # markers
                mk = events(ctx, 'plot_cyclepoints_df')
                pcd = model.find('plot_cyclepoints_df')
                ok = len(mk) == 1 and mk[0]['guard'] == T.TRUE
                if ok:
                    b = mk[0]['bound']
                    ok = b.get(pcd.params[0]) == Sw and b.get('sig') == zs and b.get('fs') == FS and b.get('xlim') == xlim and b.get('plot_extrema', T.TRUE) == T.TRUE \
                        and is_axes(b.get('ax'), 0)
                if ok:
                    rep.ok('PANEL-KEY', inst + ':markers', site, found='plot_cyclepoints_df(windowed table, full z-scored signal, fs, xlim, ax=axes[0])')
                else:
                    rep.violation('PANEL-KEY', inst + ':markers', site, expected='plot_cyclepoints_df(windowed table, zscore(sig), fs, xlim=xlim, ax=axes[0])',
                                  found=[{k: T.brief(v, 60) for k, v in e['bound'].items() if k in (pcd.params[0], 'sig', 'fs', 'xlim', 'ax')} for e in mk] or 'no call')
                # panels
                pp = events(ctx, 'plot_burst_detect_param')
                keys = [k for k, _ in TK[1] if k != 'min_n_cycles']
                if por == T.TRUE:
                    if pp:
                        rep.violation('PANEL-KEY', inst + ':panels', site, expected='no parameter panel with plot_only_result', found=f'{len(pp)} panel call(s)')
                    else:
                        rep.ok('PANEL-KEY', inst + ':panels', site, found='no parameter panels')
                    continue
                pdp = model.find('plot_burst_detect_param')
                good = len(pp) == len(keys)
                why = []
                for i, (e, k) in enumerate(zip(pp, keys)):
                    b = e['bound']
                    want = {pdp.params[0]: Sw, 'sig': zs, 'fs': FS, pdp.params[3]: C(k.replace('_threshold', '')), pdp.params[4]: dict(TK[1])[k], 'xlim': xlim,
                            'interp': ('param', 'interp')}
                    bad = [p for p in want if b.get(p) != want[p]]
                    if bad or not is_axes(b.get('ax'), i + 1) or e['guard'] != T.TRUE:
                        good = False
                        why.append(f'panel {i} ({k}): {[(p, T.brief(b.get(p), 50) if b.get(p) else None) for p in bad]} ax={T.brief(b.get("ax"), 40) if b.get("ax") else None}')
                if good:
                    rep.ok('PANEL-KEY', inst + ':panels', site, found=f'{len(keys)} panels: column, threshold, window and axes agree with their key')
                else:
                    rep.violation('PANEL-KEY', inst + ':panels', site, expected=f'one panel per key {keys} on axes[1..], column = key - "_threshold", threshold = thresholds[key]',
                                  found='; '.join(why) or f'{len(pp)} panel calls')


def is_axes(t, k):
    """t denotes axes[k] of the figure created by plt.subplots"""
    if t is None:
        return False
    if k == 0 and t[0] == 'plotaxes':
        return True
    return t[0] == 'idx' and t[1][0] == 'plotaxes' and t[2] == C(k)


def param_panel(rep, model):
    f = model.find('plot_burst_detect_param')
    site = f'{f.path}:{f.node.lineno} plot_burst_detect_param'
    for centre in ('peak', 'trough'):
        side = 'trough' if centre == 'peak' else 'peak'
        S = table(centre)
        for xn, xlim in (('None', NONE), ('given', XLIM)):
            for interp in (T.TRUE, T.FALSE):
                inst = f'{centre}:xlim={xn}:interp={interp[1]}'
                ctx = SE.Ctx(model)
                E.run(model, f.qual, {f.params[0]: S, 'sig': SIG, 'fs': FS, f.params[3]: C('monotonicity'), f.params[4]: ('param', 'thresh'), 'xlim': xlim,
                                      'interp': interp, 'ax': ('param', 'ax')}, ctx=ctx)
                if keyerrors(rep, ctx, 'panel:' + inst, site):
                    continue
                times_full = time_axis(('len', SIG))
                if xlim == NONE:
                    Sw, timesw = S, times_full
                else:
                    lw = E.spec('limit_sig', {'times': times_full, 'sig': SIG, 'start': XLIM[1][0], 'stop': XLIM[1][1]})[0]
                    timesw = lw[1][1]
                    Sw, _ = E.spec('panel_cycles', {'S': S, 'fs': FS, 'xlim': XLIM, 'side': C(side), 'centre': C(centre), 'n_times': T.length(timesw)})
                pts = events(ctx, 'plot_time_series')
                if len(pts) != 1:
                    rep.violation('PANEL-DATA', inst, site, expected='one plot_time_series call', found=f'{len(pts)} call(s)')
                    continue
                a = pts[0]['args']
                span = ('tuple', (T.index(timesw, C(0)), T.index(timesw, C(-1))))
                thr = ('list', (('param', 'thresh'), ('param', 'thresh')))
                cols = dict(Sw[1])
                if interp == T.TRUE:
                    want_x = ('list', (T.index(timesw, cols['sample_' + centre]), span))
                    want_y = ('list', (cols['monotonicity'], thr))
                    rep.compare('PANEL-DATA', inst + ':x', pts[0]['where'] or site, T.strip_nd(a[0]), want_x, ctx.unmodelled)
                    rep.compare('PANEL-DATA', inst + ':y', pts[0]['where'] or site, T.strip_nd(a[1]), want_y, ctx.unmodelled)
                else:
                    x, y = T.strip_nd(a[0]), T.strip_nd(a[1])
                    okx = x[0] == 'list' and len(x[1]) == 2 and x[1][1] == span and \
                        mentions(x[1][0], [('col', 'S', 'sample_last_' + side), ('col', 'S', 'sample_next_' + side), timesw])
                    oky = y[0] == 'list' and len(y[1]) == 2 and y[1][1] == thr and mentions(y[1][0], [('col', 'S', 'monotonicity')])
                    xs, ys = (T.strip_nd(x[1][0]) if okx else None), (T.strip_nd(y[1][0]) if oky else None)
                    if okx and oky and xs[0] == 'concatmap' and ys[0] == 'concatmap':
                        # per-cycle groups in their normal form: compare exactly (order of the two sides, one value per side)
                        key = ('range', C(0), Sw[2], C(1))
                        lv = ('lv', key, 0)
                        want_xs = ('concatmap', key, ('list', (T.index(timesw, T.index(cols['sample_last_' + side], lv)), T.index(timesw, T.index(cols['sample_next_' + side], lv)))))
                        want_ys = ('concatmap', key, ('list', (T.index(cols['monotonicity'], lv),) * 2))
                        rep.compare('PANEL-DATA', inst + ':x', pts[0]['where'] or site, ('list', (xs, x[1][1])), ('list', (want_xs, span)), ctx.unmodelled)
                        rep.compare('PANEL-DATA', inst + ':y', pts[0]['where'] or site, ('list', (ys, y[1][1])), ('list', (want_ys, thr)), ctx.unmodelled)
                    elif okx and oky:
                        rep.ok('PANEL-DATA', inst, pts[0]['where'] or site, found='steps from last to next side extremum times; threshold line over the window')
                    else:
                        rep.violation('PANEL-DATA', inst, pts[0]['where'] or site, expected='[step times from the side extrema of the windowed cycles, (times[0], times[-1])] / [parameter per cycle twice, [thresh]*2]',
                                      found=f'x={T.brief(x, 200)} y={T.brief(y, 200)}')


def panel_cycles_inline(model, S, side):
    """the reference panel_cycles with the repository's own limit_df inlined (decided by C18)"""
    Sl = repo_eval(model, 'limit_df', {'df': S, 'fs': FS, 'start': XLIM[1][0], 'stop': XLIM[1][1]})
    cols = dict(Sl[1])
    mask = T.band([T.cmp_('GtE', cols['sample_last_' + side], C(0)), T.cmp_('Lt', cols['sample_next_' + side], T.mul(XLIM[1][1], FS))])
    return ('table', tuple((c, T.index(v, ('rowsel', mask))) for c, v in Sl[1]), T.call('count', (mask,)))


def mentions(t, subs):
    s = set(T.walk(t))
    return all(x in s for x in subs)


def cyclepoints(rep, model):
    f = model.find('plot_cyclepoints_array')
    site = f'{f.path}:{f.node.lineno} plot_cyclepoints_array'
    kinds = ['peaks', 'troughs', 'rises', 'decays']
    atoms = {k: ('atom', 'PTS_' + k, 'intarr') for k in kinds}
    times_full = time_axis(('len', SIG))
    for xn, xlim in (('None', NONE), ('given', XLIM)):
        for given in (kinds, ['peaks', 'troughs'], ['rises']):
            inst = f'xlim={xn}:{"+".join(given)}'
            ctx = SE.Ctx(model)
            bound = {'sig': SIG, 'fs': FS, 'xlim': xlim, 'plot_sig': T.FALSE, 'ax': ('param', 'ax')}
            bound.update({k: (atoms[k] if k in given else NONE) for k in kinds})
            E.run(model, f.qual, bound, ctx=ctx)
            if xlim == NONE:
                sigw, timesw = SIG, times_full
            else:
                lw = E.spec('limit_sig', {'times': times_full, 'sig': SIG, 'start': XLIM[1][0], 'stop': XLIM[1][1]})[0]
                sigw, timesw = lw[1][0], lw[1][1]
            pts = [e for e in events(ctx, 'plot_time_series')]
            if len(pts) != 1:
                rep.violation('XY-SAME-INDEX', inst, site, expected='one marker plot_time_series call (plot_sig=False)', found=f'{len(pts)} call(s)')
                continue
            xs, ys = [], []
            for k in given:
                r, _ = E.spec('marker_series', {'sig': sigw, 'times': timesw, 'fs': FS, 'points': atoms[k]})
                xs.append(r[1][0])
                ys.append(r[1][1])
            a = pts[0]['args']
            rep.compare('XY-SAME-INDEX', inst + ':x', pts[0]['where'] or site, T.strip_nd(a[0]), ('list', tuple(xs)), ctx.unmodelled)
            rep.compare('XY-SAME-INDEX', inst + ':y', pts[0]['where'] or site, T.strip_nd(a[1]), ('list', tuple(ys)), ctx.unmodelled)
    # the table front end
    g = model.find('plot_cyclepoints_df')
    gsite = f'{g.path}:{g.node.lineno} plot_cyclepoints_df'
    for centre in ('peak', 'trough'):
        S = table(centre)
        cols = dict(S[1])
        sc = E.SAMPLE_COLS[centre]
        for pe, pz in ((T.TRUE, T.TRUE), (T.TRUE, T.FALSE), (T.FALSE, T.TRUE)):
            inst = f'{centre}:extrema={pe[1]}:zerox={pz[1]}'
            ctx = SE.Ctx(model, no_inline=('plot_cyclepoints_array',))
            E.run(model, g.qual, {g.params[0]: S, 'sig': SIG, 'fs': FS, 'plot_extrema': pe, 'plot_zerox': pz, 'xlim': ('param', 'xlim'), 'ax': ('param', 'ax'),
                                  'plot_sig': ('param', 'plot_sig')}, ctx=ctx)
            if keyerrors(rep, ctx, 'cyclepoints_df:' + inst, gsite):
                continue
            ev = [e for e in events(ctx, 'plot_cyclepoints_array') if e['kind'] == 'pkgcall']
            want = {'sig': SIG, 'fs': FS, 'xlim': ('param', 'xlim'), 'ax': ('param', 'ax'), 'plot_sig': ('param', 'plot_sig'),
                    'peaks': cols[sc['c']] if pe == T.TRUE else NONE,
                    'troughs': T.call('unique', (T.call('append', (cols[sc['l']], cols[sc['n']])),)) if pe == T.TRUE else NONE,
                    'rises': cols['sample_zerox_rise'] if pz == T.TRUE else NONE, 'decays': cols['sample_zerox_decay'] if pz == T.TRUE else NONE}
            got_b = {k: T.strip_nd(v) for k, v in ev[0]['bound'].items()} if len(ev) == 1 else {}
            if len(ev) == 1 and all(got_b.get(k) == v for k, v in want.items()) and not ev[0]['problems']:
                rep.ok('XY-SAME-INDEX', 'df:' + inst, gsite, found='centre / unique(last side + next side) / rise / decay midpoints of the table\'s centring')
            else:
                b = got_b
                rep.violation('XY-SAME-INDEX', 'df:' + inst, gsite, expected={k: T.brief(v, 60) for k, v in want.items()},
                              found={k: T.brief(b.get(k), 60) if b.get(k) else None for k in want if b.get(k) != want[k]} or 'no call')


def _doc_defaults(rep, model):
    from . import common as _c
    _c.doc_defaults(rep, model, ['plot_burst_detect_summary', 'plot_burst_detect_param', 'plot_cyclepoints_df', 'plot_cyclepoints_array'])
