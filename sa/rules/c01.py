"""C01 - the cycle table is a complete, ordered, gap-free segmentation (structural clauses)."""
import ast
from .. import terms as T
from ..terms import C, NONE
from .. import engine as E
from .. import symeval as SE
from ..srcmodel import external_function, Func
from ..calls import bind_args
from . import common, c02

PIPELINE = ['compute_features', 'compute_shape_features', 'compute_cyclepoints', 'find_extrema', 'find_zerox', 'find_flank_zerox', '_find_flank_midpoints',
            'compute_durations', 'compute_extrema_voltage', 'compute_symmetry', 'compute_band_amp', 'compute_burst_features', 'compute_amp_fraction',
            'compute_amp_consistency', 'compute_period_consistency', 'compute_monotonicity', 'compute_burst_fraction', 'detect_bursts_cycles', 'detect_bursts_amp',
            'check_min_burst_cycles', 'rename_extrema_df', 'drop_samples_df']
EXTERNAL_SIGS = {'filter_signal': 'neurodsp.filt.filter_signal', 'compute_filter_length': 'neurodsp.filt.fir.compute_filter_length',
                 'amp_by_time': 'neurodsp.timefrequency.amp_by_time', 'detect_bursts_dual_threshold': 'neurodsp.burst.detect_bursts_dual_threshold',
                 'check_param_range': 'neurodsp.utils.checks.check_param_range', 'check_param_options': 'neurodsp.utils.checks.check_param_options'}


def check(rep, model, tier):
    _doc_defaults(rep, model)
    rep.rule('ROW-OFFSETS', 'compute_cyclepoints == reference: with extrema P0<T0<P1<..., row i = (last side T_i, previous decay midpoint D_i, rise midpoint R_i, centre P_(i+1), '
                            'decay midpoint D_(i+1), next side T_(i+1)); last/next side (and last/current decay midpoint) are the offset-0 / offset-1 slices of ONE array, so '
                            'consecutive rows share their side extremum')
    rep.rule('PAIRING', 'the pairing convention is fixed: find_extrema defaults to first_extrema="peak", compute_cyclepoints forwards the options unchanged and feeds the same signal '
                        'and find_extrema\'s (peaks, troughs) to find_zerox; a caller override is rejected by compute_shape_features')
    rep.rule('OPT-EXCL', 'for every presence pattern of n_cycles / n_seconds in filter_kwargs the pad-length call never receives both (either/or precondition of '
                         'compute_filter_length) and uses the same length specification as the filter (3 cycles when neither is given)')
    rep.rule('EFF-ROVIEW', 'no function of the pipeline writes into a read-only array view of a pandas object (would raise for every input under pandas >= 3)')
    rep.rule('CALL-BIND', 'every resolved call from bycycle into bycycle binds against the callee\'s signature, and every call into neurodsp binds against the installed signature')
    rep.rule('MID-LOCAL', 'every midpoint is start + an offset computed from the inclusive window [start extremum, end extremum] only (shared with C03)')
    rep.rule('BOUNDARY', 'extrema are kept iff strictly beyond the boundary on both sides, with indices referring to the un-padded input (shared with C02)')
    rep.assumptions += ['existence of crossings / three oscillations, strict ordering and alternation for arbitrary signals, and data-dependent exceptions are value-level and not decided',
                        'totality is decided only against the structural causes above (read-only write, either/or precondition, call binding)']
    f = model.find('compute_cyclepoints')
    site = f'{f.path}:{f.node.lineno} compute_cyclepoints'
    fek = ('dict', (('boundary', ('param', 'boundary')), ('filter_kwargs', ('param', 'filter_kwargs'))))
    for label, kw in (('no options', ('dict', ())), ('boundary+filter options', fek)):
        b = {'sig': ('param', 'sig'), 'fs': ('param', 'fs'), 'f_range': ('param', 'f_range'), f.kwarg: kw}
        impl, ctx = E.run(model, f.qual, dict(b), overrides=E.CYCLEPOINT_ABS)
        spec, sctx = E.spec('cyclepoints', {'sig': ('param', 'sig'), 'fs': ('param', 'fs'), 'f_range': ('param', 'f_range'), 'find_extrema_kwargs': kw},
                            overrides=E.CYCLEPOINT_ABS, repo=model)
        rep.compare('ROW-OFFSETS', label, site, impl, spec, ctx.unmodelled)
        if impl is not None and impl[0] == 'table':
            cols = dict(impl[1])
            sc = E.SAMPLE_COLS['peak']
            tiles = [(sc['l'], sc['n']), (sc['m0'], sc['m2'])]
            for a_, b_ in tiles:
                la, nb = cols.get(a_), cols.get(b_)
                ok = la is not None and nb is not None and la[0] == 'slice' and nb[0] == 'slice' and la[1] == nb[1] and \
                    la[2:] == (NONE, C(-1), NONE) and nb[2:] == (C(1), NONE, NONE)
                if ok:
                    rep.ok('ROW-OFFSETS', f'{label}:tiling {a_}/{b_}', site, found=f'{T.show(la)} and {T.show(nb)} of one array')
                else:
                    rep.violation('ROW-OFFSETS', f'{label}:tiling {a_}/{b_}', site, expected='X[:-1] and X[1:] of the same array X (next[i] == last[i+1])',
                                  found=f'{T.brief(la, 80) if la else None} / {T.brief(nb, 80) if nb else None}')
        # pairing
        fe = [e for e in ctx.trace if e['kind'] == 'pkgcall' and e['name'].endswith('.find_extrema')]
        fz = [e for e in ctx.trace if e['kind'] == 'pkgcall' and e['name'].endswith('.find_zerox')]
        fex = model.find('find_extrema')
        okp = len(fe) == 1 and len(fz) == 1 and fe[0]['bound'].get('sig') == ('param', 'sig') and 'first_extrema' not in fe[0]['bound'] \
            and {k: v for k, v in fe[0]['bound'].items() if k not in ('sig', 'fs', 'f_range')} == dict(kw[1]) \
            and fz[0]['bound'].get('sig') == ('param', 'sig') and fz[0]['bound'].get('peaks') == E.P and fz[0]['bound'].get('troughs') == E.TR
        d = fex.defaults.get('first_extrema')
        okp = okp and isinstance(d, ast.Constant) and d.value == 'peak'
        if okp:
            rep.ok('PAIRING', label, site, found='find_extrema(sig, fs, f_range, **options) [default first_extrema="peak"] -> find_zerox(sig, peaks, troughs)')
        else:
            rep.violation('PAIRING', label, site, expected='options forwarded unchanged, no first_extrema override, same signal to both finders',
                          found=f'find_extrema {[{k: T.brief(v, 40) for k, v in e["bound"].items()} for e in fe]}; find_zerox {[{k: T.brief(v, 40) for k, v in e["bound"].items()} for e in fz]}; default {ast.unparse(d) if d else None}')
    # override rejected
    r, ctx = E.run(model, 'compute_shape_features', {'find_extrema_kwargs': ('dict', (('first_extrema', C('trough')),))}, overrides=E.CYCLEPOINT_ABS)
    csf = model.find('compute_shape_features')
    if r is None and any(x[0] == 'ValueError' and x[1] == T.TRUE for x in ctx.raises) and not E.calls_to(ctx, 'find_extrema'):
        rep.ok('PAIRING', 'override rejected', f'{csf.path}:{csf.node.lineno} compute_shape_features', found='ValueError before the extrema are searched')
    else:
        rep.violation('PAIRING', 'override rejected', f'{csf.path}:{csf.node.lineno} compute_shape_features', expected='ValueError for find_extrema_kwargs["first_extrema"]', found=T.brief(r, 80) if r else 'no raise')
    opt_excl(rep, model)
    opt_forward(rep, model)
    window_tiling(rep, model)
    crossing_total(rep, model)
    py_division(rep, model)
    never_copy(rep, model)
    common.roview(rep, model, PIPELINE)
    call_bind(rep, model)
    # shared clauses
    from . import c03
    before = len(rep.instances)
    c03.check(rep, model, tier)
    rep.instances[before:] = [dict(i, rule='MID-LOCAL') for i in rep.instances[before:] if i['rule'] in ('WINDOW',)]
    before = len(rep.instances)
    c02.check(rep, model, tier)
    rep.instances[before:] = [i for i in rep.instances[before:] if i['rule'] in ('BOUNDARY', 'PAD-AGREE', 'CROSSING')]
    for i in rep.instances:
        if i['rule'] == 'PAD-AGREE':
            i['rule'] = 'BOUNDARY'
    # the options stay in force on every call: the pipeline never writes through the caller's option dictionaries
    summ, det, rounds, ro = common.effects(model)
    for name in ('compute_features', 'compute_shape_features'):
        fn = model.find(name)
        # only the dictionary that carries the segmentation options itself (boundary, first_extrema): its nested filter options
        # cannot move an index across the boundary
        opt = [p for p in fn.params + ([fn.kwarg] if fn.kwarg else []) if p == 'find_extrema_kwargs']
        hits = sorted((ln, c, via) for (w, ln, c, via) in det[fn.qual].mut if w[0] == 'P' and w[1] in opt and w[1] in summ[fn.qual].get('direct', ()))
        if hits:
            rep.violation('OPTIONS-STABLE', name, f'{fn.path}:{hits[0][0]} {name}', expected='the caller\'s options (boundary, filter length, ...) are not altered by a call',
                          found='; '.join(f'{c}' + (f' [via {v}]' if v else '') for _, c, v in hits[:3]) + ': a later call with the same dictionary runs with different options')
        else:
            rep.ok('OPTIONS-STABLE', name, f'{fn.path}:{fn.node.lineno} {name}', found='no write through an option dictionary')
    rep.rules = {k: v for k, v in rep.rules.items() if k in ('DOC-DEFAULT', 'ROW-OFFSETS', 'PAIRING', 'OPT-EXCL', 'OPT-FORWARD', 'WINDOW-TILING', 'CROSSING-TOTAL', 'PY-DIVISION', 'EFF-ROVIEW', 'CALL-BIND', 'MID-LOCAL', 'BOUNDARY', 'CROSSING')}
    rep.rule('OPTIONS-STABLE', 'compute_features / compute_shape_features never write to the find_extrema_kwargs dictionary they are given (the one carrying boundary), so the '
                               'requested boundary holds on every call that reuses it (shared with C15)')
    rep.floors = {k: v for k, v in rep.floors.items() if k in ('call sites bound',)}
    rep.floor('rule instances', len(rep.instances), 40)


def window_tiling(rep, model):
    """the half-open search windows of adjacent half-waves share their boundary: [rise+a, decay+b) for a peak, [decay+b, rise+a) for a trough"""
    rep.rule('WINDOW-TILING', 'find_extrema searches a peak in raw[rise + a : decay + b] and the following trough in raw[decay + b : rise + a] with the same offsets a, b on the same '
                              'crossing arrays: the windows tile the signal, so no sample can be reported both as a peak and as the neighbouring trough (strict alternation); and only '
                              'half-waves closed by a crossing on both sides are searched (len(rise) - 1 peaks when the last crossing is a rise, else len(decay) - 1 troughs)')
    f = model.find('find_extrema')
    site = f'{f.path}:{f.node.lineno} find_extrema'

    def bound_of(t):
        # crossing[k] + c  ->  (crossing atom, c)
        t = T.anonymise_lv(t)
        off = 0
        if t[0] == 'lin':
            off = t[1]
            parts = [x for x, c in t[2]]
            if len(parts) != 1 or t[2][0][1] != 1:
                return None
            t = parts[0]
        if t[0] == 'idx' and t[1] in (c02.RX, c02.DX):
            return t[1][1], off
        # the scanned "next crossing after the window start": an element of a suffix of exactly one crossing array
        def source(x):
            if x in (c02.RX, c02.DX):
                return x[1]
            if x[0] == 'nd':
                return source(x[1])
            if x[0] == 'carried' and len(x) > 4:
                return source(x[4])
            if x[0] == 'loopout':
                return source(x[2])
            if x[0] in ('slice', 'arr', 'idx'):
                # idx: a fancy-indexed selection (crossings[searchsorted(...)]) still consists of elements of that crossing array
                return source(x[1])
            if x[0] == 'gamma':
                a_, b_ = source(x[2]), source(x[3])
                return a_ if a_ == b_ else None
            return None
        if t[0] == 'idx':
            src = source(t[1])
            if src is not None:
                return src, off
        return None
    for pad in (T.TRUE, T.FALSE):
        impl, ctx = E.run(model, f.qual, c02.base(NONE, pad, NONE), overrides=c02.OV)
        impl = T.strip_nd(impl) if impl is not None else None
        inst = f'pad={pad[1]}'
        if impl is None or impl[0] != 'tuple' or len(impl[1]) != 2:
            rep.violation('WINDOW-TILING', inst, site, expected='a (peaks, troughs) pair', found=T.brief(impl, 120) if impl else 'no value')
            continue
        win = {}
        for comp, fn, name in ((impl[1][0], 'argmax', 'peak'), (impl[1][1], 'argmin', 'trough')):
            ws = {(bound_of(x[2][0][2]), bound_of(x[2][0][3])) for x in T.walk(comp) if x[0] == 'call' and x[1] == fn and x[2] and x[2][0][0] == 'slice'}
            win[name] = ws
        recognised = len(win['peak']) == 1 and len(win['trough']) == 1 and None not in next(iter(win['peak'])) + next(iter(win['trough']))
        if not recognised:
            # a search written differently (no argmax / argmin over a slice bounded by crossing elements): this structural query has nothing to say;
            # conformance of the search as a whole is C02's FE-DEF
            rep.ok('WINDOW-TILING', inst, site, found='search windows are not in the slice-between-crossings form: not decided here (see C02 FE-DEF)', nontrivial=False)
            continue
        # the number of half-waves searched: only those closed by a crossing on both sides (a window whose closing crossing does not exist is empty: argmax raises)
        def extent_of(comp):
            for x in T.walk(comp):
                if x[0] == 'map' and x[1][0] == 'range' and x[1][1] == C(0) and any(y[0] == 'call' and y[1] in ('argmax', 'argmin') for y in T.walk(x[2])):
                    return x[1][2]
                if x[0] == 'arr' and x[1][0] == 'call' and x[1][1] in ('zeros', 'empty') and x[1][2] and any(y[0] == 'call' and y[1] in ('argmax', 'argmin') for y in T.walk(x)):
                    return x[1][2][0]
            return None
        n_p, n_t = extent_of(impl[1][0]), extent_of(impl[1][1])
        last_is_rise = T.cmp_('Gt', T.index(c02.RX, C(-1)), T.index(c02.DX, C(-1)))
        want_p = T.gamma(last_is_rise, T.sub(T.length(c02.RX), C(1)), T.length(c02.RX))
        want_t = T.gamma(last_is_rise, T.length(c02.DX), T.sub(T.length(c02.DX), C(1)))
        if n_p is None or n_t is None:
            rep.ok('WINDOW-TILING', inst + ':closed half-waves', site, found='number of searched half-waves not in a recognised form: not decided here (see C02 FE-DEF)', nontrivial=False)
        elif (n_p, n_t) == (want_p, want_t):
            rep.ok('WINDOW-TILING', inst + ':closed half-waves', site, found='peaks: one per rise that is followed by a decay; troughs: one per decay that is followed by a rise')
        else:
            rep.violation('WINDOW-TILING', inst + ':closed half-waves', site, expected=f'{T.show(want_p)} peaks and {T.show(want_t)} troughs (half-waves closed on both sides)',
                          found=f'{T.brief(n_p, 100)} peaks and {T.brief(n_t, 100)} troughs: a half-wave without its closing crossing is searched over an empty window (argmax raises)')
        (plo, phi), (tlo, thi) = next(iter(win['peak'])), next(iter(win['trough']))
        ok = plo[0] == 'RX' and phi[0] == 'DX' and tlo == phi and thi == plo
        if ok:
            rep.ok('WINDOW-TILING', inst, site, found=f'peak window [{plo[0]}+{plo[1]}, {phi[0]}+{phi[1]}), trough window [{tlo[0]}+{tlo[1]}, {thi[0]}+{thi[1]})')
        else:
            rep.violation('WINDOW-TILING', inst, site, expected='peak window [rise+a, decay+b), trough window [decay+b, rise+a)',
                          found={k: sorted(map(str, v)) for k, v in win.items()})


EMPTY_RAISING = ('median', 'mean', 'min', 'max', 'argmax', 'argmin', 'pymin', 'pymax')


def _known(c, pol):
    """the conditions known to be true once c has truth value pol"""
    if pol:
        return set(c[1]) if c[0] == 'and' else {c}
    return {T.not_(x) for x in c[1]} if c[0] == 'or' else {T.not_(c)}


def _nonempty_facts(c, pol, known=frozenset()):
    """position sets known to be non-empty when condition c has truth value pol (known: conditions that hold on the path)"""
    if c[0] == 'not':
        return _nonempty_facts(c[1], not pol, known)
    if c[0] == 'and' and pol or c[0] == 'or' and not pol:
        out = set()
        for x in c[1]:
            out |= _nonempty_facts(x, pol, known)
        return out
    if c[0] == 'and' and not pol:
        # a false conjunction whose other conjuncts hold on the path: the remaining conjunct is the false one
        rest = [x for x in c[1] if x not in known]
        return _nonempty_facts(rest[0], False, known) if len(rest) == 1 else set()
    if c[0] == 'or' and pol:
        rest = [x for x in c[1] if T.not_(x) not in known]
        return _nonempty_facts(rest[0], True, known) if len(rest) == 1 else set()
    if c[0] == 'cmp' and c[1] == 'Eq' and C(0) in (c[2], c[3]) and not pol:
        other = c[3] if c[2] == C(0) else c[2]
        if other[0] == 'len':
            return {other[1]}
    if c[0] == 'cmp0' and pol and c[2][0] == 'lin' and len(c[2][2]) == 1 and c[2][2][0][1] == 1 and c[2][2][0][0][0] == 'len' and \
            (c[1] == 'Gt' and 0 <= c[2][1] or c[1] == 'GtE' and -1 <= c[2][1] < 0):
        return {c[2][2][0][0][1]}
    if c[0] == 'call' and c[1] == 'any' and pol and c[2]:
        return {T.call('flatnonzero', (c[2][0],))}
    return set()


def _surely_nonempty(x, facts, known=frozenset()):
    """True / False (a bare position set, no emptiness test on the path) / None (not known)"""
    if x in facts:
        return True
    if x[0] in ('list', 'tuple'):
        return len(x[1]) > 0
    if x[0] == 'gamma':
        a = _surely_nonempty(x[2], facts | _nonempty_facts(x[1], True, known), known | _known(x[1], True))
        b = _surely_nonempty(x[3], facts | _nonempty_facts(x[1], False, known), known | _known(x[1], False))
        if a is False or b is False:
            return False
        return True if a and b else None
    if x[0] == 'call' and x[1] == 'flatnonzero':
        return False
    if x[0] == 'call' and x[1] in ('astype', 'sort', 'unique') and x[2]:
        return _surely_nonempty(x[2][0], facts, known)
    return None


def crossing_total(rep, model):
    """the midpoint of a flank is defined even when the half-height level is never crossed inside the window (start and end extremum at the same non-zero
    voltage, a plateau): a reduction over the set of crossings must be preceded by an emptiness test or a fallback, else int(nan) / an empty reduction raises"""
    rep.rule('CROSSING-TOTAL', 'in _find_flank_midpoints (closed over its helpers) every reduction (median / mean / min / max / arg* / first element) over a set of crossing '
                               'positions is reached only where that set is non-empty: through the find_flank_zerox fallback or an explicit emptiness test on the path. A window '
                               'whose first and last sample are equal and non-zero has no crossing, and the function must still return a midpoint instead of raising')
    f = model.find('_find_flank_midpoints')
    site = f'{f.path}:{f.node.lineno} _find_flank_midpoints'
    for fl in ('rise', 'decay'):
        b = {p_: v_ for p_, v_ in zip(f.params, (('param', 'sig'), C(fl), ('param', 'n_flanks'), ('param', 'start'), ('param', 'end'), ('param', 'bias')))}
        impl, ctx = E.run(model, f.qual, dict(b))
        sites, bad = [], []

        def visit(t, facts, known=frozenset()):
            if not isinstance(t, tuple) or not t:
                return
            if not isinstance(t[0], str):
                for x in t:
                    visit(x, facts, known)
                return
            if t[0] == 'gamma' and len(t) == 4:
                visit(t[1], facts, known)
                visit(t[2], facts | _nonempty_facts(t[1], True, known), known | _known(t[1], True))
                visit(t[3], facts | _nonempty_facts(t[1], False, known), known | _known(t[1], False))
                return
            if t[0] == 'arr' and len(t) == 3:
                visit(t[1], facts, known)
                for k, v, g in t[2]:
                    visit(k, facts, known)
                    visit(g, facts, known)
                    visit(v, facts | _nonempty_facts(g, True, known), known | _known(g, True))
                return
            red = None
            if t[0] == 'call' and t[1] in EMPTY_RAISING and t[2]:
                red = t[2][0]
            elif t[0] == 'idx' and t[2] in (C(0), C(-1)) and t[1][0] in ('call', 'gamma') and any(x[0] == 'call' and x[1] == 'flatnonzero' for x in T.walk(t[1])):
                red = t[1]
            if red is not None and any(x[0] == 'call' and x[1] == 'flatnonzero' for x in T.walk(red)):
                r = _surely_nonempty(red, facts, known)
                sites.append((t[1] if t[0] == 'call' else 'element', r))
                if r is False:
                    bad.append(t)
            for x in t[1:]:
                visit(x, facts, known)
        if impl is not None:
            visit(impl, frozenset())
        if bad:
            rep.violation('CROSSING-TOTAL', fl, site, expected='a reduction over the crossings of a window only where the set is known to be non-empty (fallback / emptiness test)',
                          found=f'{T.brief(bad[0], 160)}: no emptiness test on the path; a flank whose extrema have the same non-zero voltage raises instead of yielding a midpoint')
        elif any(r for _, r in sites):
            rep.ok('CROSSING-TOTAL', fl, site, found=f'{len(sites)} reduction(s) over crossing sets, each behind a fallback / emptiness test')
        else:
            rep.ok('CROSSING-TOTAL', fl, site, found='no reduction over a recognisable crossing set: not decided here (conformance of the search is C03 MID-DEF)', nontrivial=False)


def py_division(rep, model):
    """ratios of flank voltages / periods are taken on numpy values under np.errstate, so a zero denominator (a flat cycle, an exact tie) gives nan / inf and a row; the
    same division on python scalars pulled out of the arrays raises ZeroDivisionError and no table is returned"""
    import ast
    rep.rule('PY-DIVISION', 'no function reachable from compute_features divides by a python scalar taken out of an array (.tolist(), .item(), float(x) and builtin min / max of '
                            'those) outside a handler for ZeroDivisionError: flat cycles and exact voltage ties must yield nan / inf, not an exception')
    n = 0
    bad = 0
    for q in sorted(common.reachable(model, ['compute_features'])):
        f = model.funcs[q]
        n += 1
        for ln, txt in common.python_divisions(f.node):
            bad += 1
            rep.violation('PY-DIVISION', f'{f.name}:{txt[:40]}', f'{f.path}:{ln} {f.name}', expected='division on numpy values (nan / inf for a zero denominator)',
                          found=f'{txt}: the denominator is a python number; a zero raises ZeroDivisionError and compute_features returns no table')
    ex = ast.parse('def f(df):\n    a = df["x"].tolist()\n    b = df["y"].values\n    return [min(p, q) / max(p, q) for p, q in zip(a, a[1:])], b[0] / b[1]\n').body[0]
    got = common.python_divisions(ex)
    if len(got) == 1 and 'max(p, q)' in got[0][1]:
        if not bad:
            rep.ok('PY-DIVISION', 'package', '-', found=f'{n} functions reachable from compute_features scanned; embedded example fires on the python-scalar division only')
    else:
        rep.unresolved('PY-DIVISION', 'embedded example', 'sa/rules/c01.py', f'the taint query no longer behaves as expected: {got}')


def never_copy(rep, model):
    """the installed numpy (major version consulted) reads `copy=False` in np.array / np.asarray as *never copy*: the call raises ValueError whenever the requested dtype or
    layout needs a conversion (float32 / integer recordings, lists), where numpy 1 copied silently"""
    import ast
    from ..srcmodel import installed_versions
    v = installed_versions().get('numpy', '0')
    try:
        major = int(v.split('.')[0])
    except ValueError:
        major = 0
    rep.rule('NEVER-COPY', 'no function reachable from compute_features calls np.array / np.asarray with copy=False (numpy >= 2: "never copy" - raises ValueError for every input '
                           'that needs a conversion, e.g. an integer or float32 recording with dtype=float64); use np.asarray(x, dtype) for copy-if-needed')

    def hits(fnode, aliases=('np', 'numpy')):
        out = []
        for n in ast.walk(fnode):
            if isinstance(n, ast.Call) and isinstance(n.func, ast.Attribute) and n.func.attr in ('array', 'asarray') and isinstance(n.func.value, ast.Name) \
                    and n.func.value.id in aliases:
                for k in n.keywords:
                    if k.arg == 'copy' and isinstance(k.value, ast.Constant) and k.value.value is False:
                        out.append((n.lineno, ast.unparse(n)))
        return out
    n_ = bad = 0
    for q in sorted(common.reachable(model, ['compute_features'])):
        f = model.funcs[q]
        n_ += 1
        for ln, txt in hits(f.node) if major >= 2 else ():
            bad += 1
            rep.violation('NEVER-COPY', f'{f.name}:{txt[:50]}', f'{f.path}:{ln} {f.name}', expected='a conversion that copies when needed (np.asarray(x, dtype) / astype)',
                          found=f'{txt}: under numpy {v} this raises "Unable to avoid copy" for every input that is not already of the requested type, and no table is returned')
    ex = ast.parse('def f(sig):\n    a = np.asarray(sig, dtype=float)\n    b = sig.astype(float, copy=False)\n    return np.array(sig, dtype="float64", copy=False)\n').body[0]
    got = hits(ex)
    if len(got) == 1 and 'np.array(sig' in got[0][1]:
        if not bad:
            rep.ok('NEVER-COPY', 'package', '-', found=f'{n_} functions reachable from compute_features scanned (numpy {v}' + ('' if major >= 2 else ': copy=False means copy-if-needed, rule not armed') + '); '
                                                      'embedded example fires on np.array(..., copy=False) only')
    else:
        rep.unresolved('NEVER-COPY', 'embedded example', 'sa/rules/c01.py', f'the query no longer behaves as expected: {got}')


def opt_forward(rep, model):
    """the filter-length options the user configured reach find_extrema unchanged, through the functional and the object front end"""
    rep.rule('OPT-FORWARD', 'compute_features and Bycycle(...).fit hand find_extrema the filter_kwargs the user configured: a given n_seconds (or n_cycles) arrives alone and '
                            'unchanged - no front end adds the other length key (the pair makes the filter design raise for every signal)')
    nc, ns = ('atom', 'user_n_cycles', 'num'), ('atom', 'user_n_seconds', 'num')
    scen = {'n_seconds': ('dict', (('filter_kwargs', ('dict', (('n_seconds', ns),))),)),
            'n_cycles': ('dict', (('filter_kwargs', ('dict', (('n_cycles', nc),))),)),
            'boundary only': ('dict', (('boundary', ('atom', 'user_boundary', 'int')),)),
            'None': NONE}
    BY = 'bycycle.objs.fit.Bycycle'
    for front in ('compute_features', 'Bycycle.fit'):
        for label, fek in scen.items():
            ctx = SE.Ctx(model, overrides=E.CYCLEPOINT_ABS, kinds={'burst_kwargs': 'dict'})
            if front == 'compute_features':
                f = model.find('compute_features')
                E.run(model, f.qual, {'find_extrema_kwargs': fek, 'burst_method': C('cycles'), 'center_extrema': C('peak')}, ctx=ctx)
            else:
                f = model.funcs[f'{BY}.fit']
                o = E.make_object(ctx, model, BY, {'find_extrema_kwargs': fek, 'burst_method': C('cycles'), 'center_extrema': C('peak')})
                ctx.trace.clear()
                E.run(model, f.qual, {'self': o}, ctx=ctx)
            site = f'{f.path}:{f.node.lineno} {front}'
            evs = [e for e in E.calls_to(ctx, 'find_extrema') if e['kind'] == 'pkgcall']
            inst = f'{front}:find_extrema_kwargs={label}'
            if len(evs) != 1:
                rep.violation('OPT-FORWARD', inst, site, expected='one find_extrema call', found=f'{len(evs)} calls')
                continue
            fk = evs[0]['bound'].get('filter_kwargs', NONE)
            keys = dict(fk[1]) if fk[0] == 'dict' else {} if fk == NONE else None
            if keys is None:
                rep.violation('OPT-FORWARD', inst, evs[0]['where'] or site, expected='a filter_kwargs dictionary (or None)', found=T.brief(fk, 120))
                continue
            given = dict(dict(fek[1]).get('filter_kwargs', ('dict', ()))[1]) if fek != NONE else {}
            lens = {k: v for k, v in keys.items() if k in ('n_cycles', 'n_seconds')}
            glens = {k: v for k, v in given.items() if k in ('n_cycles', 'n_seconds')}
            ok = lens == glens or (not glens and lens in ({}, {'n_cycles': C(3)}))
            if ok:
                rep.ok('OPT-FORWARD', inst, evs[0]['where'] or site, found=f'filter length keys at find_extrema: {sorted(lens) or "none (three-cycle default)"}')
            else:
                rep.violation('OPT-FORWARD', inst, evs[0]['where'] or site, expected=f'filter length keys {({k: T.show(v) for k, v in glens.items()}) or "none / the documented default n_cycles=3"}',
                              found={k: T.show(v) for k, v in lens.items()})


def opt_excl(rep, model):
    f = model.find('find_extrema')
    site = f'{f.path}:{f.node.lineno} find_extrema'
    nc, ns = ('atom', 'user_n_cycles', 'num'), ('atom', 'user_n_seconds', 'num')
    scen = {'None': (NONE, (C(3), NONE)), 'empty': (('dict', ()), (C(3), NONE)), 'n_cycles': (('dict', (('n_cycles', nc),)), (nc, NONE)),
            'n_seconds': (('dict', (('n_seconds', ns),)), (NONE, ns))}
    for label, (fk, want) in scen.items():
        ctx = SE.Ctx(model, overrides=c02.OV)
        E.run(model, f.qual, {'filter_kwargs': fk, 'pad': T.TRUE, 'first_extrema': NONE}, ctx=ctx)
        ev = [e for e in ctx.trace if e['kind'] == 'call' and e['name'] == 'compute_filter_length']
        flt = [e for e in ctx.trace if e['kind'] == 'call' and e['name'] == 'filter_signal']
        if len(ev) != 1 or len(flt) != 1:
            rep.violation('OPT-EXCL', label, site, expected='one pad-length call and one filter call', found=f'{len(ev)} / {len(flt)}')
            continue
        kw = dict(ev[0]['kwargs'])
        got = (kw.get('n_cycles', ev[0]['args'][4] if len(ev[0]['args']) > 4 else NONE), kw.get('n_seconds', ev[0]['args'][5] if len(ev[0]['args']) > 5 else NONE))
        fkw = dict(flt[0]['kwargs'])
        fspec = (fkw.get('n_cycles', NONE), fkw.get('n_seconds', NONE))
        # the filter's own default when neither is given is three cycles (neurodsp design_fir_filter)
        same = fspec == got or (fspec == (NONE, NONE) and got == (C(3), NONE))
        if got[0] != NONE and got[1] != NONE:
            rep.violation('OPT-EXCL', f'filter_kwargs={label}', ev[0]['where'] or site, expected='never both n_cycles and n_seconds (the callee raises ValueError for the pair)',
                          found=f'n_cycles={T.show(got[0])}, n_seconds={T.show(got[1])}')
        elif got == (NONE, NONE):
            rep.violation('OPT-EXCL', f'filter_kwargs={label}', ev[0]['where'] or site, expected='one of n_cycles / n_seconds (the callee raises ValueError without a length)', found='neither')
        elif not same:
            rep.violation('OPT-EXCL', f'filter_kwargs={label}', ev[0]['where'] or site, expected='the pad length and the filter use the same length specification',
                          found=f'pad ({T.show(got[0])}, {T.show(got[1])}); filter ({T.show(fspec[0])}, {T.show(fspec[1])})')
        else:
            rep.ok('OPT-EXCL', f'filter_kwargs={label}', ev[0]['where'] or site, found=f'pad length from (n_cycles={T.show(got[0])}, n_seconds={T.show(got[1])}); filter gets the same specification')


def call_bind(rep, model):
    n = 0
    bad = 0
    sigs = {}
    for short, dotted in EXTERNAL_SIGS.items():
        node, path = external_function(dotted)
        if node is None:
            rep.unresolved('CALL-BIND', f'signature:{short}', '-', f'installed source of {dotted} not found')
        else:
            sigs[short] = Func(dotted.rsplit('.', 1)[0], dotted, node, path=path)
    for q, fn in sorted(model.funcs.items()):
        ctx = SE.Ctx(model)
        ctx.inline = False
        try:
            selfobj = None
            bound = {}
            if fn.cls and fn.params[:1] == ['self']:
                oid = ctx.fresh('obj')
                ctx.heap[oid] = {'cls': fn.cls, 'attrs': {}}
                bound['self'] = ('obj', oid)
            E.run(model, q, bound, ctx=ctx)
        except Exception as e:       # a function the evaluator cannot walk is reported, not skipped silently
            rep.unresolved('CALL-BIND', fn.name, f'{fn.path}:{fn.node.lineno} {fn.name}', f'{type(e).__name__}: {e}')
            continue
        for e in ctx.trace:
            if e['kind'] == 'pkgcall':
                n += 1
                probs = [p for p in e['problems'] if not (p.startswith('missing argument') and e.get('extra'))]
                if probs:
                    bad += 1
                    rep.violation('CALL-BIND', f'{fn.name}->{e["name"].rsplit(".", 1)[-1]}', e['where'], expected=f'binds against {e["name"].rsplit(".", 1)[-1]}(...)', found='; '.join(probs))
            elif e['kind'] == 'call' and e['name'] in sigs:
                n += 1
                ext = sigs[e['name']]
                b, probs = bind_args(ext, list(e['args']), dict(e['kwargs']), [1] if any(a[0] == 'starargs' for a in e['args']) else [])
                if probs:
                    bad += 1
                    rep.violation('CALL-BIND', f'{fn.name}->{e["name"]}', e['where'], expected=f'binds against {ext.qual}{tuple(ext.params)}', found='; '.join(probs))
    if not bad:
        rep.ok('CALL-BIND', 'package', '-', found=f'{n} resolved call sites bind against their callee')
    rep.floor('call sites bound', n, 60)


def _doc_defaults(rep, model):
    from . import common as _c
    _c.doc_defaults(rep, model, ['compute_features', 'compute_cyclepoints'])
