"""Shared scenarios / queries for the group functions (C11, C12, C13)."""
from .. import terms as T
from ..terms import C, NONE
from .. import engine as E
from .. import symeval as SE

N0, N1, N2 = (('atom', n, 'int') for n in ('n0', 'n1', 'n2'))
SIGS2 = ('shaped', 'sigs', (N0, N2))
SIGS3 = ('shaped', 'sigs', (N0, N1, N2))
NI = ('check_kwargs_shape', 'compute_features', 'compute_features_2d', 'epoch_df', 'detect_bursts_cycles', 'detect_bursts_amp', '_proxy_2d', '_proxy_3d')
OWN = {'fs': ('param', 'fs'), 'f_range': ('param', 'f_range'), 'return_samples': ('param', 'return_samples')}


def K(i, method='cycles', with_rs=True):
    """a per-signal option dictionary with every documented compute_features key"""
    d = {'burst_method': C(method), 'center_extrema': ('param', f'ce{i}'), 'threshold_kwargs': ('param', f'tk{i}'),
         'burst_kwargs': ('param', f'bk{i}'), 'find_extrema_kwargs': ('param', f'fe{i}')}
    if with_rs:
        d['return_samples'] = ('param', f'rs{i}')
    return ('dict', tuple(sorted(d.items())))


def without(d, *keys):
    return ('dict', tuple((k, v) for k, v in d[1] if k not in keys))


KINDS = {f'{p}{i}': 'dict' for p in ('tk', 'bk', 'fe') for i in range(6)}


def run2d(model, kw, axis, progress=NONE, no_inline=NI):
    ctx = SE.Ctx(model, no_inline=no_inline, kinds=KINDS)
    res, _ = E.run(model, 'compute_features_2d', {'sigs': SIGS2, 'compute_features_kwargs': kw, 'axis': axis, 'progress': progress,
                                                   'n_jobs': ('param', 'n_jobs'), 'return_samples': ('param', 'return_samples')}, ctx=ctx)
    return res, ctx


def run3d(model, kw, axis, progress=('param', 'progress'), no_inline=NI + ('progress_bar',)):
    ctx = SE.Ctx(model, no_inline=no_inline, kinds=KINDS)
    res, _ = E.run(model, 'compute_features_3d', {'sigs': SIGS3, 'compute_features_kwargs': kw, 'axis': axis, 'progress': progress,
                                                   'n_jobs': ('param', 'n_jobs'), 'return_samples': ('param', 'return_samples')}, ctx=ctx)
    return res, ctx


def pool_events(ctx):
    return [e for e in ctx.trace if e['kind'] == 'call' and e['name'].startswith('pool.')]


ORDERED = {'pool.imap', 'pool.map', 'pool.starmap'}


def ordered_map(rep, rule, inst, site, ctx):
    """exactly one pool primitive, order preserving, unconditional"""
    evs = [e for e in pool_events(ctx) if e['name'] not in ('pool.__enter__', 'pool.__exit__', 'pool.close', 'pool.join')]
    if len(evs) != 1:
        rep.violation(rule, inst, site, expected='exactly one pool mapping call', found=[e['name'] for e in evs])
        return None
    e = evs[0]
    if e['name'] not in ORDERED:
        if e['name'] in ('pool.imap_unordered',) or e['name'].endswith('_async') or e['name'] == 'pool.apply':
            rep.violation(rule, inst, e['where'] or site, expected=f'an order-preserving primitive {sorted(ORDERED)}', found=e['name'] + ' (results in completion order)')
        else:
            rep.unresolved(rule, inst, e['where'] or site, f'unknown pool primitive {e["name"]}')
        return None
    if e['guard'] != T.TRUE:
        rep.violation(rule, inst, e['where'] or site, expected='one unconditional mapping call per scenario', found=f'under {T.brief(e["guard"], 80)}')
        return None
    rep.ok(rule, inst, e['where'] or site, found=e['name'])
    return e


def leaves(t):
    """alternatives of a gamma tree"""
    if t[0] == 'gamma':
        return leaves(t[2]) + leaves(t[3])
    return [t]


def collected_in_order(res, poolres):
    """the returned value is list(<pool result or an order-preserving progress wrapper of it>)"""
    if res is None or res[0] != 'call' or res[1] != 'list' or len(res[2]) != 1:
        return False, f'returned value is {T.brief(res, 120) if res else None}, expected list(<pool result>)'
    for leaf in leaves(res[2][0]):
        if leaf == poolres:
            continue
        if leaf[0] == 'call' and leaf[1] in ('module.tqdm', 'tqdm') and poolres in leaf[2][:2]:
            continue
        if leaf[0] == 'call' and leaf[1] == 'progress_bar' and dict(leaf[3]).get('iterable') == poolres:
            continue
        return False, f'results collected from {T.brief(leaf, 120)}'
    return True, 'list(pool result) in iteration order'
