"""C15 - analysis functions are pure: no input mutation, no call-history dependence."""
import ast
from .. import effects as X
from ..srcmodel import Model

CLAIMED = ['compute_features', 'compute_shape_features', 'compute_durations', 'compute_extrema_voltage', 'compute_symmetry',
           'compute_band_amp', 'compute_burst_features', 'compute_amp_fraction', 'compute_amp_consistency',
           'compute_period_consistency', 'compute_monotonicity', 'compute_burst_fraction', 'compute_cyclepoints', 'find_extrema',
           'find_zerox', 'compute_features_2d', 'compute_features_3d', 'recompute_edges', 'limit_df', 'epoch_df', 'drop_samples_df',
           'plot_burst_detect_summary', 'plot_burst_detect_param', 'plot_cyclepoints_df', 'plot_cyclepoints_array',
           'plot_feature_hist', 'plot_feature_categorical']
# documented contract is to update the argument (not in the claim; their summaries are used at their call sites)
DOCUMENTED_MUTATORS = {'detect_bursts_cycles', 'detect_bursts_amp', 'check_min_burst_cycles', 'rename_extrema_df', 'split_samples_df',
                       'flatten_dfs', 'recompute_edge'}
AMBIENT_EXCEPTIONS = {'plot_feature_categorical': 'documented random jitter along the x axis of a scatter plot'}
ALLOWED_DECORATORS = {'savefig', 'multidim', 'staticmethod', 'classmethod', 'property'}

POSITIVE = {
    'mini/__init__.py': '',
    'mini/a.py': (
        'import numpy as np\nimport pandas as pd\nfrom copy import deepcopy\n_CACHE = {}\n'
        'def writes_param(sig, opts):\n    opts["k"] = 1\n    return helper(sig)\n'
        'def helper(x):\n    x[0] = 0\n    return x\n'
        'def lost(df):\n    df["a"][0] = 1\n    return df\n'
        'def ro(df):\n    v = df["a"].to_numpy()\n    v[0] = 1\n    return v\n'
        'def glob(x):\n    _CACHE[x] = 1\n    return x\n'
        'def shared_default(x, d={}):\n    d["n"] = d.get("n", 0) + 1\n    return d["n"]\n'
        'def hands_out_default(k, default={}):\n    return k.copy() if isinstance(k, dict) else default\n'
        'def uses_default(k):\n    d = hands_out_default(k)\n    d["fs"] = 1\n    return d\n'
        'def clean(df, opts):\n    df = df.copy()\n    opts = deepcopy(opts)\n    df["a"] = 1\n    opts["k"] = 2\n    return df\n'
        'def guard(d):\n    if isinstance(d, dict):\n        d = d.copy()\n    if not isinstance(d, dict):\n        d = {}\n    d["k"] = 1\n    return d\n'
    ),
}


def positive_example(rep):
    """zero-instance rules must match on a built-in example on every run"""
    m = Model.from_sources(POSITIVE)
    summ, det, _ = X.summarise(m)
    want = {
        'writes_param': summ['mini.a.writes_param']['mut'] == {'opts', 'sig'},
        'lost': bool(det['mini.a.lost'].lost),
        'ro': bool(det['mini.a.ro'].rowrite),
        'glob': any(w[0] == 'G' for (w, *_r) in det['mini.a.glob'].mut),
        'shared_default': summ['mini.a.shared_default']['mut'] == {'d'},
        'escaping-default': any(w[0] == 'G' for (w, *_r) in det['mini.a.uses_default'].mut),
        'clean-silent': not summ['mini.a.clean']['mut'] and not det['mini.a.clean'].lost,
        'guard-silent': not summ['mini.a.guard']['mut'],
    }
    for k, ok in want.items():
        if ok:
            rep.ok('SELF-TEST', k, 'sa/rules/c15.py:POSITIVE', found='rule fires / stays silent as expected on the embedded example', nontrivial=False)
        else:
            rep.unresolved('SELF-TEST', k, 'sa/rules/c15.py:POSITIVE', 'the effect analysis no longer behaves as expected on the embedded example')


UNORDERED = {'imap_unordered', 'as_completed'}


def unordered_uses(fnode):
    """(line, name) of every reference to a completion-order primitive in a function, and whether the function re-orders what it collects"""
    import ast
    uses = [(n.lineno, n.attr) for n in ast.walk(fnode) if isinstance(n, ast.Attribute) and n.attr in UNORDERED]
    uses += [(n.lineno, n.id) for n in ast.walk(fnode) if isinstance(n, ast.Name) and n.id in UNORDERED]
    reorders = any(isinstance(n, ast.Call) and (isinstance(n.func, ast.Name) and n.func.id == 'sorted' or isinstance(n.func, ast.Attribute) and n.func.attr in ('sort', 'argsort'))
                   for n in ast.walk(fnode))
    return sorted(set(uses)), reorders


def no_uninit(rep, model):
    """np.empty / np.empty_like hand out whatever the allocator left in memory: any element that is not written before it is read makes the result depend on what ran before"""
    import ast
    rep.rule('NO-UNINIT', 'no function allocates an uninitialised buffer (np.empty, np.empty_like, np.ndarray(shape)): a partially written one (np.divide(..., out=buf, where=...)) '
                          'returns allocator garbage that differs from call to call')
    n = 0
    def uses(node):
        return [(x.lineno, ast.unparse(x.func)) for x in ast.walk(node) if isinstance(x, ast.Call) and isinstance(x.func, ast.Attribute) and
                (x.func.attr in ('empty', 'empty_like') or (x.func.attr == 'ndarray' and isinstance(x.func.value, ast.Name) and x.func.value.id in ('np', 'numpy')))]
    for q, fn in sorted(model.funcs.items()):
        n += 1
        for ln, nm in uses(fn.node):
            rep.violation('NO-UNINIT', f'{fn.name}:{nm}', f'{fn.path}:{ln} {fn.name}', expected='np.zeros / np.full (or a buffer that is provably written everywhere)',
                          found=f'{nm}(...): uninitialised memory can reach the result', key=f'NO-UNINIT@{fn.mod}:{fn.name}:{nm}')
    ex = ast.parse('def f(a, b):\n    r = np.empty(a.shape)\n    np.divide(a, b, out=r, where=b != 0)\n    return r, np.zeros(3)\n').body[0]
    if len(uses(ex)) == 1:
        rep.ok('NO-UNINIT', 'package', '-', found=f'{n} functions scanned; embedded example fires on np.empty only', nontrivial=True)
    else:
        rep.unresolved('SELF-TEST', 'no-uninit', 'sa/rules/c15.py:no_uninit', 'the query no longer behaves as expected on the embedded example')


def no_schedule(rep, model):
    import ast
    n = 0
    for q, fn in sorted(model.funcs.items()):
        n += 1
        uses, reorders = unordered_uses(fn.node)
        for ln, nm in uses:
            if reorders:
                rep.ok('NO-SCHEDULE', f'{fn.name}:{nm}', f'{fn.path}:{ln} {fn.name}', found='completion-order primitive in a function that re-orders its results: not decided here', nontrivial=False)
            else:
                rep.violation('NO-SCHEDULE', f'{fn.name}:{nm}', f'{fn.path}:{ln} {fn.name}', expected='results collected in submission order (Pool.imap / map)',
                              found=f'{nm}: results arrive in completion order, the returned list depends on worker timing', key=f'NO-SCHEDULE@{fn.mod}:{fn.name}:{nm}')
    rep.ok('NO-SCHEDULE', 'package', '-', found=f'{n} functions scanned', nontrivial=True)
    # embedded examples: the rule must fire on the first and stay silent on the second
    ex1 = ast.parse('def f(pool, g, xs, progress):\n    imap = pool.imap if progress is None else pool.imap_unordered\n    return list(imap(g, xs))\n').body[0]
    ex2 = ast.parse('def f(pool, g, xs):\n    return list(pool.imap(g, xs))\n').body[0]
    if unordered_uses(ex1)[0] and not unordered_uses(ex1)[1] and not unordered_uses(ex2)[0]:
        rep.ok('SELF-TEST', 'no-schedule', 'sa/rules/c15.py:no_schedule', found='rule fires / stays silent as expected on the embedded example', nontrivial=False)
    else:
        rep.unresolved('SELF-TEST', 'no-schedule', 'sa/rules/c15.py:no_schedule', 'the completion-order query no longer behaves as expected on the embedded example')
    return n


def check(rep, model, tier):
    rep.rule('EFF-PARAM', 'the closed effect summary (alias analysis + call-graph fixpoint) of every claimed public function contains no write through '
                          'any parameter (subscript/attribute store, del, augmented assignment, mutator method, inplace=True, or passing to a callee that writes)')
    rep.rule('EFF-ROVIEW', 'no write reaches a read-only array obtained from a pandas object (.values / .to_numpy() / np.asarray) -- pandas >= 3')
    rep.rule('EFF-LOST', 'no store goes through an unbound copy-on-write temporary (chained DataFrame assignment)')
    rep.rule('NO-GLOBAL', 'no function writes module-level state; no parameter with a mutable default is written through (shared across calls); no caching decorator')
    rep.rule('NO-AMBIENT', 'analysis functions call no RNG / clock / environment (documented exception: jitter in plot_feature_categorical)')
    rep.rule('NO-SCHEDULE', 'no result is collected in completion order: Pool.imap_unordered / concurrent.futures.as_completed (called or merely referenced, e.g. bound to a '
                            'name and called later) appear in no function, unless that function sorts what it collected (sorted / .sort / argsort); with them '
                            'the table at a position depends on worker timing and a repeated call can return a different list')
    rep.rule('SELF-TEST', 'embedded positive / negative examples on which the zero-instance rules must fire / stay silent')
    rep.assumptions += ['neurodsp / numpy / pandas callees do not write their inputs (read for filter_signal, amp_by_time, detect_bursts_dual_threshold)',
                        'objects sent through multiprocessing.Pool are pickled: no effect flows back',
                        'pandas copy-on-write (>= 3): df[col], df[mask], df.iloc[...] are new objects w.r.t. mutation']
    ro = X.pandas_major() >= 3
    summ, det, rounds = X.summarise(model, ro_armed=ro)
    rep.analysed['effect_fixpoint_rounds'] = rounds
    rep.analysed['pandas_read_only_views_armed'] = ro
    positive_example(rep)
    n = 0
    for name in CLAIMED:
        fn = model.find(name)
        s, a = summ[fn.qual], det[fn.qual]
        site = f'{fn.path}:{fn.node.lineno} {name}'
        params = [p for p in fn.params + fn.kwonly if p != 'self']
        for p in params:
            n += 1
            hits = sorted((ln, c, via) for (w, ln, c, via) in a.mut if w == ('P', p))
            if hits:
                ln, c, via = hits[0]
                rep.violation('EFF-PARAM', f'{name}({p})', f'{fn.path}:{ln} {name}', expected=f'no write through parameter {p!r}',
                              found=f'{c}' + (f' [via {via}]' if via else '') + (f' (+{len(hits) - 1} more)' if len(hits) > 1 else ''),
                              key=f'EFF-PARAM@{fn.mod}:{name}:{p}:{c}')
            else:
                rep.ok('EFF-PARAM', f'{name}({p})', site, found='no write-through in the closed summary', nontrivial=fn.kinds.get(p) in ('df', 'dict', 'nd', 'list', 'dictorlist', None))
    rep.floor('claimed (function, parameter) pairs', n, 100)
    rep.floor('claimed public functions', len(CLAIMED), 27)
    # package-wide rules
    n_fn = 0
    for q, fn in sorted(model.funcs.items()):
        a = det[q]
        n_fn += 1
        site = f'{fn.path}:{fn.node.lineno} {fn.name}'
        for ln, c, via in a.rowrite:
            rep.violation('EFF-ROVIEW', f'{fn.name}:{c}', f'{fn.path}:{ln} {fn.name}', expected='writes only to arrays the function owns (copy first)',
                          found=f'{c} writes to a read-only view of a pandas object' + (f' [via {via}]' if via else ''),
                          key=f'EFF-ROVIEW@{fn.mod}:{fn.name}:{c}')
        for ln, c in a.lost:
            rep.violation('EFF-LOST', f'{fn.name}:{c}', f'{fn.path}:{ln} {fn.name}', expected='a single .loc/.iloc store or a store to a bound object',
                          found=f'{c} updates a copy-on-write temporary: the value never reaches the table', key=f'EFF-LOST@{fn.mod}:{fn.name}:{c}')
        gw = [(ln, c) for (w, ln, c, via) in a.mut if w[0] == 'G'] + [(ln, f'global {g}') for ln, g in a.globals_written]
        for ln, c in gw:
            rep.violation('NO-GLOBAL', f'{fn.name}:{c}', f'{fn.path}:{ln} {fn.name}', expected='no module-level state is written', found=c)
        for p, d in fn.defaults.items():
            if isinstance(d, (ast.Dict, ast.List, ast.Set, ast.Call, ast.ListComp, ast.DictComp)) and p in summ[q]['mut']:
                rep.violation('NO-GLOBAL', f'{fn.name}:default:{p}', site, expected='no write through a mutable default (shared by all calls)',
                              found=f'parameter {p}={ast.unparse(d)} is written through')
        for d in fn.decorators:
            base = d.split('(')[0].split('.')[-1]
            if base not in ALLOWED_DECORATORS:
                rep.violation('NO-GLOBAL', f'{fn.name}:decorator:{d}', site, expected=f'decorators within {sorted(ALLOWED_DECORATORS)}', found=d)
        for ln, dotted in a.ambient:
            if fn.name in AMBIENT_EXCEPTIONS:
                continue
            rep.violation('NO-AMBIENT', f'{fn.name}:{dotted}', f'{fn.path}:{ln} {fn.name}', expected='no RNG / clock / environment access', found=dotted)
    n_sched = no_schedule(rep, model)
    no_uninit(rep, model)
    # module-level mutable state that functions read and some function writes is covered by NO-GLOBAL; count what was looked at
    rep.ok('NO-GLOBAL', 'package', '-', found=f'{n_fn} functions scanned', nontrivial=True)
    rep.ok('EFF-ROVIEW', 'package', '-', found=f'{n_fn} functions scanned, read-only views armed={ro}', nontrivial=True)
    rep.ok('EFF-LOST', 'package', '-', found=f'{n_fn} functions scanned', nontrivial=True)
    rep.ok('NO-AMBIENT', 'package', '-', found=f'{n_fn} functions scanned; exceptions {sorted(AMBIENT_EXCEPTIONS)}', nontrivial=True)
    rep.floor('functions analysed', n_fn, 55)
