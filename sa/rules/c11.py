"""C11 - 2-D group analysis equals per-signal analysis, in order."""
from .. import terms as T
from ..terms import C, NONE
from .. import engine as E
from .. import symeval as SE
from . import grp, common


def proxy_ok(rep, model, rule, proxy, target, want_bound, site):
    """the proxy unpacks (signal(s), options) in producer order and forwards its own fs / f_range / return_samples"""
    f = model.find(proxy)
    Sx, Kx = ('atom', 'ELEMENT_signal', 'arr'), ('param', 'ELEMENT_options')
    ctx = SE.Ctx(model, no_inline=grp.NI, kinds={'ELEMENT_options': 'dict'})
    res, _ = E.run(model, f.qual, {f.params[0]: ('tuple', (Sx, Kx)), **{p: ('param', p) for p in f.params[1:]}}, ctx=ctx)
    evs = [e for e in E.calls_to(ctx, target) if e['kind'] == 'pkgcall']
    psite = f'{f.path}:{f.node.lineno} {proxy}'
    if len(evs) != 1 or res != evs[0]['result']:
        rep.violation(rule, f'{proxy}:delegates', psite, expected=f'returns exactly one {target}(...) call', found=f'{len(evs)} call(s); returns {T.brief(res, 80) if res else None}')
        return
    b, extra = evs[0]['bound'], tuple(evs[0].get('extra', ()))
    want = want_bound(Sx, Kx)
    want_extra = want.pop('**', ())
    bad = {k: T.brief(b.get(k), 50) if b.get(k) else None for k in want if b.get(k) != want[k]}
    if bad or extra != want_extra or set(b) - set(want) or evs[0]['problems']:
        rep.violation(rule, f'{proxy}:binding', psite, expected={k: T.brief(v, 40) for k, v in want.items()} | {'**': [T.brief(x, 40) for x in want_extra]},
                      found=f'differs {bad}; ** {[T.brief(x, 40) for x in extra]}; unexpected {sorted(set(b) - set(want))}; {evs[0]["problems"]}')
    else:
        rep.ok(rule, f'{proxy}:binding', psite, found=f'element 0 -> signal, element 1 -> options, own fs/f_range/return_samples')


def noninterference(rep, model, fname, runner, site):
    """n_jobs reaches only Pool(processes=...) (and a delegated group call); progress only progress_bar"""
    res, ctx = runner(model, NONE, C(0), progress=('param', 'progress'), no_inline=grp.NI + ('progress_bar',)) if fname == 'compute_features_2d' else \
        runner(model, NONE, C(0))
    nj, pg = ('param', 'n_jobs'), ('param', 'progress')
    bad = []
    for e in ctx.trace:
        if e['kind'] not in ('call', 'pkgcall') or e.get('inlined'):
            continue            # an inlined helper is transparent: what its body does with the value follows in the trace
        short = e['name'].rsplit('.', 1)[-1]
        terms = list(e['args']) + [v for _, v in e['kwargs']]
        if e['name'] in ('pool.imap', 'pool.map', 'pool.starmap'):
            # the chunk size of an *ordered* pool primitive decides how the work is batched, never what is returned or in which order
            terms = list(e['args'][:2]) + [v for k_, v in e['kwargs'] if k_ != 'chunksize']
        if any(nj in set(T.walk(t)) for t in terms) and short not in ('Pool', 'compute_features_2d'):
            bad.append(f'n_jobs reaches {short}')
        if any(pg in set(T.walk(t)) for t in terms) and short not in ('progress_bar', 'compute_features_2d'):
            bad.append(f'progress reaches {short}')
    pools = [e for e in ctx.trace if e['kind'] == 'call' and e['name'] == 'Pool']
    want_proc = T.gamma(T.cmp_('Eq', nj, C(-1)), ('atom', 'cpu_count', 'int'), nj)
    if pools and dict(pools[0]['kwargs']).get('processes', pools[0]['args'][0] if pools[0]['args'] else None) != want_proc:
        bad.append(f'Pool(processes={T.brief(dict(pools[0]["kwargs"]).get("processes"), 60)})')
    if bad:
        rep.violation('NONINTERFERENCE', fname, site, expected='n_jobs only sizes the pool (cpu_count for -1); progress only selects the progress bar', found='; '.join(sorted(set(bad))))
    else:
        rep.ok('NONINTERFERENCE', fname, site, found='n_jobs -> Pool(processes=...), progress -> progress_bar only')


def progress_bar_rule(rep, model):
    f = model.find('progress_bar')
    site = f'{f.path}:{f.node.lineno} progress_bar'
    it = ('atom', 'ITERABLE', 'any')
    for prog in (NONE, C('tqdm'), C('tqdm.notebook')):
        ctx = SE.Ctx(model)
        res, _ = E.run(model, f.qual, {f.params[0]: it, f.params[1]: prog, f.params[2]: ('param', 'n')}, ctx=ctx)
        bad = [T.brief(l, 80) for l in grp.leaves(res) if not (l == it or (l[0] == 'call' and l[1] in ('module.tqdm', 'tqdm') and it in l[2][:2]))] if res else ['no result']
        if bad:
            rep.violation('NONINTERFERENCE', f'progress_bar[{T.show(prog)}]', site, expected='returns its iterable or tqdm(iterable, ...) (order preserving)', found=bad)
        else:
            rep.ok('NONINTERFERENCE', f'progress_bar[{T.show(prog)}]', site, found=T.brief(res, 100))


def check(rep, model, tier):
    _doc_defaults(rep, model)
    rep.rule('ORDERED-MAP', 'per-row work is mapped with an order-preserving pool primitive (imap / map / starmap), in every options x progress scenario')
    rep.rule('RESULT-ORDER', 'the returned list is list(<pool result or an order-preserving progress wrapper of it>): results are collected in submission order')
    rep.rule('SHARED', 'with None / one dictionary every row is analysed by compute_features(row, fs, f_range, return_samples=<own>, **options-without-return_samples)')
    rep.rule('ZIP-PAIR', 'with a per-row list the rows travel as zip(sigs, options) in order, and the proxy unpacks element 0 as the signal and element 1 as its options')
    rep.rule('RS-OVERRIDE', 'the options\' own return_samples entry is removed (from a copy) and the function\'s return_samples is what reaches compute_features')
    rep.rule('NONINTERFERENCE', 'n_jobs reaches only Pool(processes=...), progress only progress_bar; progress_bar returns its iterable or an order-preserving wrapper')
    rep.rule('COPY-FIRST', 'the group function writes through none of its arguments (closed effect summary); worker-side functions write no module-level state')
    rep.rule('INDEX-AGREE', 'BycycleGroup (2-D): models[i] is loaded from df_features[i] and sigs[i] (shared with C14)')
    rep.assumptions += ['multiprocessing.Pool.imap/map/starmap yield results in submission order; arguments are pickled (stdlib documentation)',
                        'each per-row table equals compute_features on that row by construction (same callee); pickling fidelity is trusted']
    g = model.find('compute_features_2d')
    site = f'{g.path}:{g.node.lineno} compute_features_2d[axis=0]'
    K = grp.K
    scen = {'None': NONE, 'dict': K(0), 'list3': ('list', (K(0), K(1, 'amp'), K(2))), 'list2': ('list', (K(0), K(1, 'amp')))}
    cf = model.find('compute_features')
    for label, kw in scen.items():
        for prog in (NONE, C('tqdm'), C('tqdm.notebook')):
            inst = f'options={label}:progress={T.show(prog)}'
            res, ctx = grp.run2d(model, kw, C(0), progress=prog)
            e = grp.ordered_map(rep, 'ORDERED-MAP', inst, site, ctx)
            if e is None:
                continue
            fn_t, it_t = (e['args'] + (NONE, NONE))[:2]
            ok, why = grp.collected_in_order(res, ('poolresult', e['name'][5:], fn_t, it_t))
            (rep.ok if ok else lambda *a, **k: rep.violation(*a[:3], expected='list(pool result) in iteration order', found=k['found']))('RESULT-ORDER', inst, site, found=why)
            if prog != NONE:
                continue
            if fn_t[0] != 'partial' or fn_t[1][0] != 'funcref':
                rep.violation('SHARED' if not label.startswith('list') else 'ZIP-PAIR', inst, site, expected='partial(<package function>, ...)', found=T.brief(fn_t, 100))
                continue
            target, pargs, pkw, pextra = fn_t[1][1].rsplit('.', 1)[-1], fn_t[2], dict(fn_t[3]), fn_t[4]
            if not label.startswith('list'):
                first = kw if label == 'dict' else None
                want = dict(grp.OWN)
                if first:
                    want.update({k: v for k, v in first[1] if k != 'return_samples'})
                if target == 'compute_features' and not pargs and not pextra and pkw == want and it_t == grp.SIGS2 and cf.params[0] not in pkw:
                    rep.ok('SHARED', inst, site, found='partial(compute_features, fs, f_range, return_samples, **options) over sigs')
                else:
                    rep.violation('SHARED', inst, site, expected=f'partial(compute_features, {sorted(want)}) mapped over the rows of sigs',
                                  found=f'partial({target}, {[T.brief(a, 30) for a in pargs]}, {({k: T.brief(v, 30) for k, v in pkw.items()})}, ** {[T.brief(x, 30) for x in pextra]}) over {T.brief(it_t, 60)}')
                if pkw.get('return_samples') == grp.OWN['return_samples']:
                    rep.ok('RS-OVERRIDE', inst, site, found='own return_samples; the options\' entry dropped')
                else:
                    rep.violation('RS-OVERRIDE', inst, site, expected='return_samples of the group function', found=T.brief(pkw.get('return_samples'), 60))
            else:
                want_it = T.call('zip', (grp.SIGS2, ('list', tuple(grp.without(k, 'return_samples') for k in kw[1]))))
                if target == '_proxy_2d' and not pargs and not pextra and pkw == grp.OWN and it_t == want_it:
                    rep.ok('ZIP-PAIR', inst, site, found=f'zip(sigs, [{len(kw[1])} option sets]) in order, each without return_samples')
                else:
                    rep.violation('ZIP-PAIR', inst, site, expected=f'partial(_proxy_2d, fs, f_range, return_samples) over {T.brief(want_it, 120)}',
                                  found=f'partial({target}, {({k: T.brief(v, 30) for k, v in pkw.items()})}) over {T.brief(it_t, 200)}')
    proxy_ok(rep, model, 'ZIP-PAIR', '_proxy_2d', 'compute_features',
             lambda Sx, Kx: {cf.params[0]: Sx, 'fs': ('param', 'fs'), 'f_range': ('param', 'f_range'), 'return_samples': ('param', 'return_samples'), '**': (Kx,)}, site)
    noninterference(rep, model, 'compute_features_2d', grp.run2d, site)
    progress_bar_rule(rep, model)
    summ, det, rounds, ro = common.effects(model)
    for name in ('compute_features_2d',):       # the proxies run in worker processes on pickled copies
        f = model.find(name)
        if summ[f.qual]['mut'] - ({'args'} if False else set()):
            a = det[f.qual]
            hits = sorted((ln, c, via) for (w, ln, c, via) in a.mut if w[0] == 'P')
            rep.violation('COPY-FIRST', name, f'{f.path}:{hits[0][0]} {name}', expected='no write through an argument (deep copy first)',
                          found='; '.join(f'{c}' + (f' [via {v}]' if v else '') for _, c, v in hits[:3]))
        else:
            rep.ok('COPY-FIRST', name, f'{f.path}:{f.node.lineno} {name}', found='closed summary has no parameter write')
    gw = [(q, ln, c) for q, a in det.items() for (w, ln, c, via) in a.mut if w[0] == 'G'] + [(q, ln, g_) for q, a in det.items() for ln, g_ in a.globals_written]
    if gw:
        rep.violation('COPY-FIRST', 'worker-pure', gw[0][0], expected='no module-level state written anywhere in the package', found=gw[:3])
    else:
        rep.ok('COPY-FIRST', 'worker-pure', '-', found=f'{len(det)} functions: no write to module-level state')
    from . import c14
    before = len(rep.instances)
    c14.group(rep, model)
    keep = []
    for i in rep.instances[before:]:
        if '2-D' in i['instance'] or 'signatures agree' in i['instance']:
            i['rule'] = 'INDEX-AGREE' if i['rule'] == 'INDEX-AGREE' else 'SHARED' if False else i['rule']
            keep.append(i)
    rep.instances[before:] = [i for i in keep if i['rule'] == 'INDEX-AGREE' or i['status'] != 'discharged' or True]
    rep.rule('ARG-NAME', 'BycycleGroup.fit binds its settings to compute_features_2d by name (shared with C14)')
    rep.rule('NO-STALE', 'BycycleGroup.fit, entered with every non-setting attribute unknown (earlier tables, the earlier array, bookkeeping), calls compute_features_2d exactly once and '
                         'independently of that state: no refit shortcut or cached result can stand in for the analysis (shared with C14)')
    rep.floor('rule instances', len(rep.instances), 30)


def _doc_defaults(rep, model):
    from . import common as _c
    _c.doc_defaults(rep, model, ['compute_features_2d'])
