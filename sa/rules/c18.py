"""C18 - table and signal windowing utilities are lossless selections."""
from .. import terms as T
from ..terms import C, NONE
from .. import engine as E
from .. import symeval as SE
from . import common

START, STOP = ('atom', 'start', 'num'), ('atom', 'stop', 'num')


def full_table(centre, name='S'):
    return E.abstract_table(name, E.BURST_COLS['cycles'] + ['is_burst'] + E.SHAPE_COLS + list(E.SAMPLE_COLS[centre].values()))


def no_none_in_checks(rep, ctx, rule, inst, site):
    bad = [e for e in ctx.trace if e['kind'] == 'call' and e['name'] == 'check_param_range'
           and (e['args'][0] == NONE or (len(e['args']) > 2 and NONE in (T.index(e['args'][2], C(0)), T.index(e['args'][2], C(1)))))]
    if bad:
        rep.violation(rule, inst, bad[0]['where'] or site, expected='an omitted (None) limit never reaches an ordering comparison',
                      found=f'check_param_range({", ".join(T.brief(a, 30) for a in bad[0]["args"])}) compares None: TypeError')
    else:
        rep.ok(rule, inst, site, found='no None reaches check_param_range')


def check(rep, model, tier):
    _doc_defaults(rep, model)
    rep.rule('LIMIT-DEF', 'limit_df == reference for both centrings x start/stop given or omitted x reset_indices: rows with last side >= start*fs (None -> 0) and, when stop is given, '
                          'next side <= stop*fs, in order; with reset_indices every sample_* column shifted by int(fs*start); nothing else changed')
    rep.rule('SIGNAL-DEF', 'limit_signal == reference: samples with times >= start (if given) and times < stop (if given); sig filtered with the mask of the same-length times')
    rep.rule('NULL-OPT', 'an omitted limit (None) never reaches check_param_range as the value or as a bound')
    rep.rule('SCHEMA', 'every column read by the utilities exists in the table of either centring (no KeyError under trough centring)')
    rep.rule('PARTITION-PREFIX', 'drop_samples_df returns exactly the non-sample_ columns unchanged; split_samples_df returns (non-sample_ columns, the sample_ columns in table order), values unchanged')
    rep.rule('LABEL-ORDER', 'flatten_dfs concatenates the tables in (row-major) order and table k carries label k of the flattened labels, for 1-D and non-square 2-D lists')
    rep.rule('EFF-PARAM', 'limit_df / drop_samples_df / limit_signal write through none of their arguments (closed effect summary)')
    rep.assumptions += ['float rounding of start*fs / int(fs*start) is not decided', 'boolean-mask row selection keeps order; DataFrame.drop / pop / concat keep values']
    f = model.find('limit_df')
    site = f'{f.path}:{f.node.lineno} limit_df'
    n = 0
    for centre in ('peak', 'trough'):
        S = full_table(centre)
        for sn, st in (('None', NONE), ('given', START)):
            for en, sp in (('None', NONE), ('given', STOP)):
                for ri in (T.TRUE, T.FALSE):
                    inst = f'{centre}:start={sn}:stop={en}:reset={ri[1]}'
                    impl, ctx = E.run(model, 'limit_df', {f.params[0]: S, 'fs': ('param', 'fs'), 'start': st, 'stop': sp, 'reset_indices': ri})
                    spec, _ = E.spec('limit_table', {'S': S, 'fs': ('param', 'fs'), 'start': st, 'stop': sp, 'reset_indices': ri, 'centre': C(centre)})
                    ke = [e for e in ctx.trace if e['kind'] == 'keyerror']
                    if ke:
                        rep.violation('SCHEMA', inst, ke[0]['where'], expected=f'only columns of a {centre}-centred table are read', found=f'column {ke[0]["name"]!r} does not exist: KeyError')
                    else:
                        rep.compare('LIMIT-DEF', inst, site, impl, spec, ctx.unmodelled)
                    n += 1
                    if ri == T.TRUE:
                        no_none_in_checks(rep, ctx, 'NULL-OPT', f'limit_df:{centre}:start={sn}:stop={en}', site)
    g = model.find('limit_signal')
    gsite = f'{g.path}:{g.node.lineno} limit_signal'
    for sn, st in (('None', NONE), ('given', START)):
        for en, sp in (('None', NONE), ('given', STOP)):
            impl, ctx = E.run(model, 'limit_signal', {'start': st, 'stop': sp})
            spec, _ = E.spec('limit_sig', {'start': st, 'stop': sp})
            rep.compare('SIGNAL-DEF', f'start={sn}:stop={en}', gsite, impl, spec, ctx.unmodelled)
            no_none_in_checks(rep, ctx, 'NULL-OPT', f'limit_signal:start={sn}:stop={en}', gsite)
            n += 1
    # column partition
    for centre in ('peak', 'trough'):
        S = full_table(centre)
        cols = dict(S[1])
        keep = {k: v for k, v in cols.items() if not k.startswith('sample_')}
        samp = [k for k in sorted(cols) if k.startswith('sample_')]
        d = model.find('drop_samples_df')
        r, ctx = E.run(model, 'drop_samples_df', {d.params[0]: S})
        rep.compare('PARTITION-PREFIX', f'drop_samples_df:{centre}', f'{d.path}:{d.node.lineno} drop_samples_df', r, E.table_of(keep, S[2]), ctx.unmodelled)
        sp_ = model.find('split_samples_df')
        r, ctx = E.run(model, 'split_samples_df', {sp_.params[0]: S})
        ssite = f'{sp_.path}:{sp_.node.lineno} split_samples_df'
        ok = r is not None and r[0] == 'tuple' and len(r[1]) == 2 and r[1][0] == E.table_of(keep, S[2])
        if ok:
            second = r[1][1]
            ok = second[0] == 'call' and second[1] == 'concat' and second[2] and second[2][0][0] == 'list' and \
                sorted(second[2][0][1], key=repr) == sorted((cols[k] for k in samp), key=repr) and \
                dict(second[3]).get('axis', second[2][1] if len(second[2]) > 1 else None) == C(1)
        if ok:
            rep.ok('PARTITION-PREFIX', f'split_samples_df:{centre}', ssite, found=f'({len(keep)} feature columns, {len(samp)} sample columns), values unchanged')
        else:
            rep.violation('PARTITION-PREFIX', f'split_samples_df:{centre}', ssite, expected='(table without sample_ columns, concat(sample_ columns, axis=1))', found=T.brief(r, 300) if r else None)
    label_order(rep, model)
    common.grid_round(rep, model, ['limit_df'])
    summ, det, rounds, ro = common.effects(model)
    for name in ('limit_df', 'limit_signal', 'drop_samples_df'):
        fn = model.find(name)
        if summ[fn.qual]['mut']:
            hits = sorted((ln, c, via) for (w, ln, c, via) in det[fn.qual].mut if w[0] == 'P')
            rep.violation('EFF-PARAM', name, f'{fn.path}:{hits[0][0]} {name}', expected='no write through an argument', found='; '.join(c for _, c, _v in hits[:3]))
        else:
            rep.ok('EFF-PARAM', name, f'{fn.path}:{fn.node.lineno} {name}', found='closed summary has no parameter write')
    common.lost(rep, model, ['limit_df', 'epoch_df', 'flatten_dfs', 'rename_extrema_df'])
    rep.rule('EFF-LOST', 'no chained (lost) store in the table utilities')
    rep.floor('windowing scenarios', n, 20)


def label_order(rep, model):
    f = model.find('flatten_dfs')
    site = f'{f.path}:{f.node.lineno} flatten_dfs'

    def tb(nm):
        return E.abstract_table(nm, ['period', 'is_burst', 'sample_peak'])
    col = 'GroupLabel'
    # 1-D
    dfs = ('list', tuple(tb(f'T{i}') for i in range(3)))
    labs = ('list', tuple(('param', f'L{i}') for i in range(3)))
    r, ctx = E.run(model, 'flatten_dfs', {f.params[0]: dfs, f.params[1]: labs, f.params[2]: C(col)})
    want = [('table', tuple(sorted(dict(dict(t[1]), **{col: l}).items())), t[2]) for t, l in zip(dfs[1], labs[1])]
    check_concat(rep, '1-D list', site, r, want)
    # 2-D, non square (2 x 3) and (3 x 2)
    for a, b in ((2, 3), (3, 2)):
        dfs2 = ('list', tuple(('list', tuple(tb(f'T{i}{j}') for j in range(b))) for i in range(a)))
        lab2 = ('list', tuple(('list', tuple(('param', f'L{i}{j}') for j in range(b))) for i in range(a)))
        r, ctx = E.run(model, 'flatten_dfs', {f.params[0]: dfs2, f.params[1]: lab2, f.params[2]: C(col)})
        want = [('table', tuple(sorted(dict(dict(dfs2[1][i][1][j][1]), **{col: lab2[1][i][1][j]}).items())), dfs2[1][i][1][j][2]) for i in range(a) for j in range(b)]
        check_concat(rep, f'2-D list {a}x{b}', site, r, want)
    # labels given as an ndarray
    r, ctx = E.run(model, 'flatten_dfs', {f.params[0]: dfs, f.params[1]: ('nd', labs), f.params[2]: C(col)})
    want = [('table', tuple(sorted(dict(dict(t[1]), **{col: l}).items())), t[2]) for t, l in zip(dfs[1], labs[1])]
    check_concat(rep, '1-D list, ndarray labels', site, r, want)


def check_concat(rep, inst, site, r, want):
    r = T.strip_nd(r) if r else r
    ok = r is not None and r[0] == 'call' and r[1] == 'concat' and r[2] and r[2][0][0] in ('list', 'tuple') and list(r[2][0][1]) == want \
        and dict(r[3]).get('axis', r[2][1] if len(r[2]) > 1 else C(0)) == C(0)
    if ok:
        rep.ok('LABEL-ORDER', inst, site, found=f'{len(want)} tables concatenated in order, each with its own label')
    else:
        got = []
        if r is not None and r[0] == 'call' and r[2] and r[2][0][0] in ('list', 'tuple'):
            for t in r[2][0][1]:
                if t[0] == 'table':
                    d = dict(t[1])
                    src = {v[1] for v in d.values() if v[0] == 'col'}
                    lab = [T.show(v) for k, v in d.items() if v[0] != 'col']
                    got.append(f'{sorted(src)}:{lab}')
        rep.violation('LABEL-ORDER', inst, site, expected=[f"{sorted({v[1] for v in dict(t[1]).values() if v[0] == 'col'})}:{[T.show(v) for v in dict(t[1]).values() if v[0] != 'col']}" for t in want],
                      found=got or (T.brief(r, 300) if r else None))


def _doc_defaults(rep, model):
    from . import common as _c
    _c.doc_defaults(rep, model, ['limit_df', 'limit_signal', 'flatten_dfs'])
