"""Helpers shared by rule modules (cached effect summaries, read-only-view / lost-update instances)."""
from .. import effects as X

_cache = {}


def effects(model):
    key = id(model)
    if key not in _cache:
        ro = X.pandas_major() >= 3
        summ, det, rounds = X.summarise(model, ro_armed=ro)
        _cache[key] = (summ, det, rounds, ro)
    return _cache[key]


def roview(rep, model, names, rule='EFF-ROVIEW'):
    """no write reaches a read-only array obtained from a pandas object, in the named functions (pandas >= 3)"""
    summ, det, rounds, ro = effects(model)
    for name in names:
        f = model.find(name)
        a = det[f.qual]
        if a.rowrite:
            for ln, c, via in a.rowrite:
                rep.violation(rule, f'{name}:{c}', f'{f.path}:{ln} {name}', expected='writes only to arrays the function owns (copy first)',
                              found=f'{c} writes to a read-only view of a pandas object' + (f' [via {via}]' if via else '') + ': raises ValueError for every input',
                              key=f'{rule}@{f.mod}:{name}:{c}')
        else:
            rep.ok(rule, name, f'{f.path}:{f.node.lineno} {name}', found=f'no write to a read-only view (armed={ro})')


def args_intact(rep, model, names, rule='ARGS-INTACT', params=None, why=''):
    """the named functions write through none of their arguments (or none of ``params``), by the closed effect summary"""
    summ, det, rounds, ro = effects(model)
    for name in names:
        f = model.find(name)
        hits = sorted((ln, c, via) for (w, ln, c, via) in det[f.qual].mut if w[0] == 'P' and (params is None or w[1] in params))
        if hits:
            rep.violation(rule, name, f'{f.path}:{hits[0][0]} {name}', expected='no write through an argument' + (f' ({why})' if why else ''),
                          found='; '.join(f'{c}' + (f' [via {v}]' if v else '') for _, c, v in hits[:3]), key=f'{rule}@{f.mod}:{name}')
        else:
            rep.ok(rule, name, f'{f.path}:{f.node.lineno} {name}', found='closed effect summary has no write through ' + ('an argument' if params is None else '/'.join(sorted(params))))


DOC_DEFAULT_TEXT = ('an omitted option means its documented default: for every parameter whose docstring line states "default: v", the signature default of the '
                    'anchored entry point is v (docstring and code are two tables of the same contract; one of them is wrong when they disagree)')


def doc_defaults(rep, model, names, rule='DOC-DEFAULT'):
    """signature default == the default stated on the parameter's numpydoc line, for the named functions"""
    import ast
    import re
    rep.rule(rule, DOC_DEFAULT_TEXT)
    n = 0
    for name in names:
        f = model.funcs.get(name) or model.find(name)
        doc = ast.get_docstring(f.node) or ''
        site = f'{f.path}:{f.node.lineno} {f.name}'
        for ln in doc.splitlines():
            mo = re.match(r'^\s*(\w+)\s*:\s*(.*)default\s*[:=]\s*(.+?)\s*$', ln)
            if not mo or mo.group(1) not in f.defaults:
                continue
            p, dv = mo.group(1), mo.group(3).rstrip('.')
            d = f.defaults[p]
            try:
                sv = ast.literal_eval(d)
            except Exception:
                sv = ast.unparse(d)
            try:
                docv = ast.literal_eval(dv)
            except Exception:
                docv = dv
            n += 1
            if sv == docv or str(sv) == str(docv):
                rep.ok(rule, f'{f.name}({p})', site, found=f'default {sv!r} as documented')
            else:
                rep.violation(rule, f'{f.name}({p})', site, expected=f'documented default {docv!r}', found=f'signature default {sv!r}', key=f'{rule}@{f.mod}:{f.name}:{p}')
    return n


def grid_round(rep, model, names, rule='GRID-ROUND'):
    """a time on the sample grid times fs is an integer only up to floating-point rounding (fs * 2.07 = 206.99999999999997 at fs = 100): converting it to a
    sample index must round, not truncate"""
    import ast
    rep.rule(rule, 'where a time is converted to a sample index (fs * start, times[0] * fs) the product is rounded to the nearest integer, not truncated: for limits on the '
                   'sample grid the product can fall just below the intended integer, and int() alone would shift every index by one sample')
    for name in names:
        f = model.find(name)
        bad = []
        for x in ast.walk(f.node):
            if isinstance(x, ast.Call) and isinstance(x.func, ast.Name) and x.func.id == 'int' and len(x.args) == 1:
                a = x.args[0]
                names_in = {y.id for y in ast.walk(a) if isinstance(y, ast.Name)}
                is_product = isinstance(a, ast.BinOp) and isinstance(a.op, ast.Mult) and 'fs' in names_in
                if is_product:
                    bad.append((x.lineno, ast.unparse(x)))
        site = f'{f.path}:{f.node.lineno} {name}'
        if bad:
            rep.violation(rule, name, f'{f.path}:{bad[0][0]} {name}', expected='int(round(fs * t))', found=f'{len(bad)} truncating conversion(s), e.g. {bad[0][1]}',
                          key=f'{rule}@{name}')
        else:
            rep.ok(rule, name, site, found='time-to-sample conversions are rounded')


def lost(rep, model, names, rule='EFF-LOST'):
    summ, det, rounds, ro = effects(model)
    for name in names:
        f = model.find(name)
        a = det[f.qual]
        if a.lost:
            for ln, c in a.lost:
                rep.violation(rule, f'{name}:{c}', f'{f.path}:{ln} {name}', expected='a landing store (.loc/.iloc or a bound object)',
                              found=f'{c} updates a copy-on-write temporary: the value never reaches the table', key=f'{rule}@{f.mod}:{name}:{c}')
        else:
            rep.ok(rule, name, f'{f.path}:{f.node.lineno} {name}', found='no chained store')


def covers_all(guards, depth=0):
    """do the conditions jointly hold on every path?  Shannon expansion over the conjuncts that occur (c and not c)"""
    from .. import terms as T
    guards = [g for g in guards if g != T.FALSE]
    if any(g == T.TRUE for g in guards):
        return True
    if not guards or depth > 8:
        return False
    if T.or_(guards) == T.TRUE:
        return True
    conj = lambda g: list(g[1]) if g[0] == 'and' else [g]
    atoms = []
    for g in guards:
        for c in conj(g):
            a = c[1] if c[0] == 'not' else c
            if a not in atoms:
                atoms.append(a)
    for a in atoms:
        na = T.not_(a)
        if not (any(a in conj(g) for g in guards) and any(na in conj(g) for g in guards)):
            continue

        def assume(lit, other):
            out = []
            for g in guards:
                cs = conj(g)
                if other in cs:
                    continue
                out.append(T.and_([c for c in cs if c != lit]))
            return out
        return covers_all(assume(a, na), depth + 1) and covers_all(assume(na, a), depth + 1)
    return False


_CALLGRAPH = {}


def reachable(model, roots):
    """package functions reachable from the named roots: an edge for every identifier / attribute name in a body that names a package function or class
    (over-approximation: also functions merely referenced, e.g. passed to partial or stored in a table)"""
    import ast
    key = id(model)
    if key not in _CALLGRAPH:
        by_name = {}
        for q, f in model.funcs.items():
            by_name.setdefault(f.name, set()).add(q)
        for cq in model.classes:
            for q, f in model.funcs.items():
                if f.cls == cq:
                    by_name.setdefault(cq.rsplit('.', 1)[1], set()).add(q)
        graph = {}
        for q, f in model.funcs.items():
            names = {n.id for n in ast.walk(f.node) if isinstance(n, ast.Name)} | {n.attr for n in ast.walk(f.node) if isinstance(n, ast.Attribute)}
            graph[q] = set().union(*(by_name.get(n, set()) for n in names)) - {q}
        _CALLGRAPH[key] = graph
    graph = _CALLGRAPH[key]
    seen, work = set(), [model.find(r).qual for r in roots]
    while work:
        q = work.pop()
        if q in seen:
            continue
        seen.add(q)
        work.extend(graph.get(q, ()))
    return seen


def no_history(rep, model, roots, rule='NO-HISTORY'):
    """no function reachable from the entry points writes module-level state: the result of a call cannot depend on the calls made before it"""
    rep.rule(rule, f'no function reachable from {" / ".join(roots)} writes module-level state (a cache, a registry, a constant edited in place, a `global` rebinding): '
                   'what a call returns cannot depend on the calls made before it in the same process (shared with C15 NO-GLOBAL)')
    summ, det, rounds, ro = effects(model)
    qs = reachable(model, roots)
    bad = []
    for q in sorted(qs):
        a = det.get(q)
        if a is None:
            continue
        fn = model.funcs[q]
        for (w, ln, c, via) in sorted(a.mut, key=lambda x: x[1]):
            if w[0] == 'G':
                bad.append((fn, ln, c))
        for ln, g_ in a.globals_written:
            bad.append((fn, ln, f'global {g_}'))
    for fn, ln, c in bad:
        rep.violation(rule, f'{fn.name}:{c}', f'{fn.path}:{ln} {fn.name}', expected='no write to module-level state on the analysis path',
                      found=f'{c}: state that survives the call; a later call with the same arguments can return something else', key=f'{rule}@{fn.mod}:{fn.name}:{c}')
    rep.ok(rule, 'reachable functions', '-', found=f'{len(qs)} functions reachable from {", ".join(roots)} scanned', nontrivial=True)


_NONE_FEK = {}


def same_extrema_options(model, got, given):
    """is ``got`` (what a caller hands compute_shape_features as find_extrema_kwargs) the caller's own ``given`` value, as far as the segmentation can tell?  True when it is
    ``given`` itself, or ``given`` with None replaced by exactly what compute_shape_features itself substitutes for None (read off its call into compute_cyclepoints, with the
    documented n_cycles default): resolving the default one level earlier changes nothing downstream"""
    from .. import terms as T, engine as E
    from ..terms import NONE
    if got == given:
        return True
    key = id(model)
    if key not in _NONE_FEK:
        d0 = None
        try:
            f = model.find('compute_shape_features')
            r, ctx = E.run(model, f.qual, {'find_extrema_kwargs': NONE}, overrides=E.CYCLEPOINT_ABS, no_inline=('compute_cyclepoints',))
            evs = [e for e in E.calls_to(ctx, 'compute_cyclepoints') if e['kind'] == 'pkgcall']
            if len(evs) == 1:
                cp = model.find('compute_cyclepoints')
                kw = evs[0]['bound'].get(cp.kwarg) if cp.kwarg else None
                if kw is not None and kw[0] == 'dict':
                    d0 = kw
        except Exception:
            d0 = None
        _NONE_FEK[key] = d0
    d0 = _NONE_FEK[key]
    if d0 is None:
        return False
    if given == NONE:
        return got == d0
    return got == T.gamma(T.cmp_('Is', NONE, given), d0, given) or got == T.gamma(T.cmp_('Is', given, NONE), d0, given)


VALUE_FREE_CALLS = {'len', 'argmax', 'argmin', 'nonzero', 'flatnonzero', 'where', 'searchsorted', 'argsort', 'shape', 'size', 'ndim', 'isnan', 'any', 'all', 'sign', 'isfinite'}


def sample_arith(fnode, sig_params):
    """dtype-sensitive arithmetic on raw sample values, by a forward taint from the signal parameter(s) of one function: {'diff': [...], 'neg': [...], 'prod': [...]} with
    (line, text) entries.  Subscripts, arithmetic and value-preserving calls carry sample values; positions, lengths, comparisons and masks do not"""
    import ast
    tainted = set(sig_params)

    def carries(n):
        if isinstance(n, ast.Name):
            return n.id in tainted
        if isinstance(n, ast.Subscript):
            return carries(n.value)
        if isinstance(n, ast.BinOp):
            return carries(n.left) or carries(n.right)
        if isinstance(n, ast.UnaryOp):
            return not isinstance(n.op, ast.Not) and carries(n.operand)
        if isinstance(n, ast.IfExp):
            return carries(n.body) or carries(n.orelse)
        if isinstance(n, ast.Call):
            name = n.func.attr if isinstance(n.func, ast.Attribute) else n.func.id if isinstance(n.func, ast.Name) else ''
            if name in VALUE_FREE_CALLS:
                return False
            recv = carries(n.func.value) if isinstance(n.func, ast.Attribute) and not (isinstance(n.func.value, ast.Name) and n.func.value.id in ('np', 'numpy')) else False
            return recv or any(carries(a) for a in n.args)
        if isinstance(n, (ast.Tuple, ast.List)):
            return any(carries(e) for e in n.elts)
        return False
    for _ in range(3):
        for st in ast.walk(fnode):
            if isinstance(st, ast.Assign) and carries(st.value):
                for t in st.targets:
                    for x in ast.walk(t):
                        if isinstance(x, ast.Name) and isinstance(x.ctx, ast.Store):
                            tainted.add(x.id)
            elif isinstance(st, ast.AugAssign) and carries(st.value) and isinstance(st.target, ast.Name):
                tainted.add(st.target.id)
    out = {'diff': [], 'neg': [], 'prod': []}
    for n in ast.walk(fnode):
        if isinstance(n, ast.BinOp) and isinstance(n.op, ast.Sub) and carries(n.left) and carries(n.right):
            out['diff'].append((n.lineno, ast.unparse(n)))
        elif isinstance(n, ast.AugAssign) and isinstance(n.op, ast.Sub) and carries(n.target) and carries(n.value):
            out['diff'].append((n.lineno, ast.unparse(n)))
        elif isinstance(n, ast.UnaryOp) and isinstance(n.op, ast.USub) and carries(n.operand):
            out['neg'].append((n.lineno, ast.unparse(n)))
        elif isinstance(n, ast.BinOp) and isinstance(n.op, ast.Mult) and carries(n.left) and carries(n.right):
            out['prod'].append((n.lineno, ast.unparse(n)))
        elif isinstance(n, ast.BinOp) and isinstance(n.op, ast.Pow) and carries(n.left):
            out['prod'].append((n.lineno, ast.unparse(n)))
        elif isinstance(n, ast.Call) and (isinstance(n.func, ast.Attribute) and n.func.attr in ('dot', 'vdot', 'inner', 'square', 'multiply', 'outer')) and \
                sum(1 for a in n.args if carries(a)) + (1 if isinstance(n.func.value, ast.Name) and n.func.value.id not in ('np', 'numpy') and carries(n.func.value) else 0) >= (1 if n.func.attr == 'square' else 2):
            out['prod'].append((n.lineno, ast.unparse(n)))
    return out


def python_divisions(fnode):
    """divisions whose denominator is a python scalar taken out of an array (.tolist() / .item() / float() / int() and what is computed from them with builtin min / max /
    arithmetic): a zero there raises ZeroDivisionError, where the same division on numpy values gives inf / nan under the errstate the code already sets up"""
    import ast
    tainted = set()

    def src(n):
        return isinstance(n, ast.Call) and ((isinstance(n.func, ast.Attribute) and n.func.attr in ('tolist', 'item')) or
                                            (isinstance(n.func, ast.Name) and n.func.id in ('float',) and n.args and not isinstance(n.args[0], ast.Constant)))

    def carries(n):
        if src(n):
            return True
        if isinstance(n, ast.Name):
            return n.id in tainted
        if isinstance(n, ast.Subscript):
            return carries(n.value)
        if isinstance(n, ast.BinOp):
            return carries(n.left) and carries(n.right) or (carries(n.left) and isinstance(n.right, ast.Constant)) or (carries(n.right) and isinstance(n.left, ast.Constant))
        if isinstance(n, ast.Call) and isinstance(n.func, ast.Name) and n.func.id in ('min', 'max', 'abs', 'sum', 'zip', 'list', 'tuple', 'enumerate', 'reversed', 'sorted'):
            return any(carries(a) for a in n.args)
        if isinstance(n, (ast.Tuple, ast.List)):
            return any(carries(e) for e in n.elts)
        return False
    for _ in range(3):
        for st in ast.walk(fnode):
            if isinstance(st, ast.Assign) and carries(st.value):
                for t in st.targets:
                    for x in ast.walk(t):
                        if isinstance(x, ast.Name) and isinstance(x.ctx, ast.Store):
                            tainted.add(x.id)
            elif isinstance(st, (ast.For, ast.comprehension)) and carries(st.iter):
                for x in ast.walk(st.target):
                    if isinstance(x, ast.Name):
                        tainted.add(x.id)
    protected = set()
    for t in ast.walk(fnode):
        if isinstance(t, ast.Try) and any(h.type is None or 'ZeroDivisionError' in ast.unparse(h.type) or 'ArithmeticError' in ast.unparse(h.type) or ast.unparse(h.type) == 'Exception'
                                         for h in t.handlers):
            protected |= {id(x) for b in t.body for x in ast.walk(b)}
    return [(n.lineno, ast.unparse(n)) for n in ast.walk(fnode)
            if isinstance(n, ast.BinOp) and isinstance(n.op, (ast.Div, ast.FloorDiv, ast.Mod)) and carries(n.right) and id(n) not in protected]


def identity_compares(model, fnode, modname):
    """`x is <value>` / `x is not <value>` where <value> is a string / number / tuple literal or a module-level name bound to one: [(lineno, text)].
    Identity of equal strings or numbers depends on interning (literals in one code object are shared, a string built or read at run time is not)"""
    import ast
    consts = module_value_constants(model, modname)

    def valueish(e):
        if isinstance(e, ast.Constant):
            return isinstance(e.value, (str, bytes, int, float, complex, tuple)) and not isinstance(e.value, bool)
        if isinstance(e, (ast.Tuple, ast.List, ast.Dict, ast.Set, ast.JoinedStr)):
            return True
        if isinstance(e, ast.Name):
            return e.id in consts
        return False
    out = []
    for n in ast.walk(fnode):
        if isinstance(n, ast.Compare):
            left = n.left
            for op, right in zip(n.ops, n.comparators):
                if isinstance(op, (ast.Is, ast.IsNot)) and (valueish(left) or valueish(right)):
                    out.append((n.lineno, ast.unparse(n)))
                left = right
    return out


_MOD_CONSTS = {}


def module_value_constants(model, modname):
    """names that denote a str / number / tuple literal in the module: bound at module level, or imported from a package module that binds them so"""
    import ast
    key = (id(model), modname)
    if key not in _MOD_CONSTS:
        def lits(mod):
            return {k: v.value for k, v in model.modassign.get(mod, {}).items()
                    if isinstance(v, ast.Constant) and isinstance(v.value, (str, bytes, int, float, tuple)) and not isinstance(v.value, bool)}
        names = dict(lits(modname))
        for local, target in (model.imports.get(modname) or {}).items():
            for _ in range(3):                  # through package re-exports
                if not (isinstance(target, tuple) and len(target) == 2 and target[1]):
                    break
                m_, n_ = target
                if n_ in lits(m_):
                    names[local] = lits(m_)[n_]
                    break
                target = (model.imports.get(m_) or {}).get(n_)
        _MOD_CONSTS[key] = names
    return _MOD_CONSTS[key]


def value_identity(rep, model, roots, rule='VALUE-IDENTITY'):
    """no option or label is compared by object identity"""
    import ast
    rep.rule(rule, f'no function reachable from {" / ".join(roots)} compares a string, number or tuple value with `is` / `is not`: equal values given by a caller at run time '
                   '(read from a file, built, unpickled in a pool worker) are not the identical object, so the branch taken would depend on where the value came from')
    qs = reachable(model, roots)
    n = 0
    for q in sorted(qs):
        fn = model.funcs[q]
        n += 1
        for ln, text in identity_compares(model, fn.node, fn.mod):
            rep.violation(rule, f'{fn.name}:{text}', f'{fn.path}:{ln} {fn.name}', expected='comparison by value (== / != / in)',
                          found=f'`{text}`: true only for the identical object (interned literal), false for an equal value built at run time', key=f'{rule}@{fn.mod}:{fn.name}:{text}')
    ex = ast.parse("def f(c, d):\n    a = c is None\n    b = d is not True\n    return c is 'peak' or d is not ()\n").body[0]
    got = identity_compares(model, ex, '-')
    if [t for _, t in got] == ["c is 'peak'", 'd is not ()']:
        rep.ok(rule, 'embedded example', 'sa/rules/common.py', found='fires on `is` against a string / tuple literal, silent on `is None` / `is not True`', nontrivial=False)
    else:
        rep.unresolved(rule, 'embedded example', 'sa/rules/common.py', f'the query no longer behaves as expected on the embedded example: {got}')
    rep.ok(rule, 'reachable functions', '-', found=f'{n} functions reachable from {", ".join(roots)} scanned', nontrivial=True)
