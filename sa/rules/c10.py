"""C10 - results are covariant with amplitude and sampling-rate units (unit inference)."""
from .. import terms as T
from ..terms import C, NONE
from .. import engine as E
from .. import units as U
from .. import symeval as SE
from . import common, c02, c05

EXPECT = {'samp': U.SAMP, 'V': U.V, '1': U.ONE}


def report(rep, rule, inst, site, term, want=None):
    u, probs = U.unit_of(term)
    if probs:
        k, where, detail = probs[0]
        rep.violation(rule if k != 'ABSOLUTE-LEVEL' else 'NO-ABS-LEVEL', inst, site, expected='unit-consistent arithmetic without absolute levels in signal units',
                      found=f'{k}: {detail} in {where}' + (f' (+{len(probs) - 1} more)' if len(probs) > 1 else ''))
        return False
    if u is None:
        rep.ok(rule, inst, site, found=f'unit not inferable (construct outside the unit table): no verdict for {T.brief(term, 80)}', nontrivial=False)
        return True
    if want is not None and u not in (want, U.POLY) and not (want == U.ONE and u in (U.ANY,)):
        rep.violation(rule, inst, site, expected=f'unit {U.name(want)}', found=f'unit {U.name(u)} for {T.brief(term, 160)}')
        return False
    rep.ok(rule, inst, site, found=f'unit {U.name(u)}')
    return True


def sample_product(rep, model):
    """amplitude covariance for recordings stored in narrow integer types: a product of two raw sample values (a square, a dot product) overflows after scaling although no
    sample does, so a decision taken on it ("is this stretch all zero?") changes with the scale"""
    import ast
    from . import common
    rep.rule('SAMPLE-PRODUCT', 'no function reachable from compute_features multiplies two raw sample values (x * y, x ** 2, np.dot / square / multiply on samples): sums, '
                               'differences, scalings and comparisons only, which stay exact under a power-of-two scaling in every numeric type that holds the scaled samples')
    n = 0
    for q in sorted(common.reachable(model, ['compute_features'])):
        f = model.funcs[q]
        sigs = [p for p in f.params if p == 'sig' or p.startswith('sig_')]
        if not sigs:
            continue
        n += 1
        hits = common.sample_arith(f.node, sigs)['prod']
        if hits:
            rep.violation('SAMPLE-PRODUCT', f.name, f'{f.path}:{hits[0][0]} {f.name}', expected='no product of sample values',
                          found='; '.join(t for _, t in hits[:3]) + ': overflows in int16 / int32 recordings once the samples are scaled up')
    ex = ast.parse('def f(sig, a, b):\n    seg = sig[a:b]\n    return np.dot(seg, seg) == 0, seg * 2, (b - a) * 2\n').body[0]
    got = common.sample_arith(ex, ['sig'])['prod']
    if len(got) == 1 and 'dot' in got[0][1]:
        rep.ok('SAMPLE-PRODUCT', 'package', '-', found=f'{n} functions taking the signal scanned; embedded example fires on the dot product only')
    else:
        rep.unresolved('SAMPLE-PRODUCT', 'embedded example', 'sa/rules/c10.py', f'the taint query no longer behaves as expected: {got}')


DIMENSIONLESS_CALLEES = {'check_param_range', 'check_param_options', 'warn'}


def ext_units(rep, ctx, inst):
    """every neurodsp / scipy callee that is handed a dimensional quantity (fs, f_range, a duration) has a unit signature in sa/units.py:EXT, read from its source: the scale
    behaviour of a callee without one is not known (its verdict may depend on the absolute unit, like the frequency grid of neurodsp's filter checks)"""
    rep.rule('EXT-UNITS', 'the only neurodsp / scipy functions that receive fs, f_range or a duration are those whose unit signature is in the model table (filter_signal, '
                          'compute_filter_length, amp_by_time, detect_bursts_dual_threshold): a further callee with dimensional arguments is outside what the scale argument covers')
    seen = set()
    for e in ctx.trace:
        if e['kind'] != 'call':
            continue
        dotted = (e.get('dotted') or '')
        if not (dotted.startswith('neurodsp.') or dotted.startswith('scipy.')) or e['name'] in U.EXT or e['name'] in DIMENSIONLESS_CALLEES:
            continue
        dims = []
        for a in list(e['args']) + [v for _, v in e['kwargs']]:
            u, _p = U.unit_of(a)
            if u in (U.FS, U.HZ, U.SEC) or (isinstance(u, tuple) and u and u[0] == 'seq'):
                dims.append(T.brief(a, 40))
            elif any(x in (('param', 'fs'), ('param', 'f_range')) for x in T.walk(a)):
                dims.append(T.brief(a, 40))
        if dims and (e['name'], e['where']) not in seen:
            seen.add((e['name'], e['where']))
            rep.violation('EXT-UNITS', f'{inst}:{e["name"]}', e['where'] or '-', expected='dimensional arguments only to callees with a unit signature in the model table',
                          found=f'{dotted}({", ".join(dims[:3])}): no unit signature; its result may depend on the unit in which fs / f_range are written')
    if not seen:
        rep.ok('EXT-UNITS', inst, '-', found='no unlisted neurodsp / scipy callee receives a dimensional quantity')


def check(rep, model, tier):
    rep.rule('UNITS-OUT', 'inferred units of the output columns: samples for period / time_* / sample_*; signal amplitude V for volt_* and band_amp; dimensionless for the symmetry, '
                          'consistency, fraction, monotonicity columns and the labels -- a stray or missing fs shows up as a unit mismatch')
    rep.rule('NO-ABS-LEVEL', 'no V-valued term is added to, compared with or tested against a non-zero literal or an absolute tolerance (np.isclose / np.allclose); zero is allowed (sign tests)')
    rep.rule('UNIT-CONSISTENT', 'every sum / comparison / alternative / array in the extremum, midpoint, feature and labelling code combines terms of one unit, and every argument of the '
                                'neurodsp callees has the unit its parameter expects (fs in samples/s, f_range in 1/s, n_cycles dimensionless, n_seconds in s)')
    rep.rule('OPTIONS-STABLE', 'the pipeline never writes through the option dictionaries (find_extrema_kwargs, filter_kwargs, and burst_kwargs, which carries fs and f_range for the amplitude method) it is given, so an absolute filter length cannot leak from one (fs, f_range) call into the next (shared with C15)')
    rep.assumptions += ['unit seeds come from the docstrings (sig in V; fs in samples/s; f_range in 1/s; sample columns, boundary in samples; n_seconds, start, stop in s)',
                        'linearity of the FIR filter and scale behaviour inside neurodsp are modelled (unit signatures), not analysed; exact floating-point commutation is not decided']
    f = model.find('compute_shape_features')
    site = f'{f.path}:{f.node.lineno} compute_shape_features'
    n = 0
    for centre in ('peak', 'trough'):
        res, ctx = E.run(model, f.qual, {'center_extrema': C(centre), 'find_extrema_kwargs': NONE, 'n_cycles': ('param', 'n_cycles')}, overrides=E.CYCLEPOINT_ABS)
        if res is None or res[0] != 'table':
            rep.ok('UNITS-OUT', centre, site, found='no table term to infer units from (left to C04)', nontrivial=False)
            continue
        for col, term in res[1]:
            want = U.col_unit(col)
            if want is None:
                rep.unresolved('UNITS-OUT', f'{centre}:{col}', site, 'column without a documented unit')
                continue
            report(rep, 'UNITS-OUT', f'{centre}:{col}', site, term, want)
            n += 1
    # burst features and labels on a table with documented column units
    for centre in ('peak', 'trough'):
        S = c05.feature_table(centre)
        for fname, extra, col in (('compute_amp_fraction', {}, 'amp_fraction'), ('compute_amp_consistency', {'direction': C('both')}, 'amp_consistency'),
                                  ('compute_period_consistency', {'direction': C('both')}, 'period_consistency')):
            g = model.find(fname)
            t, _ = E.run(model, g.qual, dict(extra, **{g.params[0]: S}))
            report(rep, 'UNITS-OUT', f'{centre}:{col}', f'{g.path}:{g.node.lineno} {fname}', t, U.ONE)
            n += 1
        g = model.find('compute_monotonicity')
        t, _ = E.run(model, g.qual, {g.params[0]: S, g.params[1]: ('param', 'sig')})
        report(rep, 'UNITS-OUT', f'{centre}:monotonicity', f'{g.path}:{g.node.lineno} compute_monotonicity', t, U.ONE)
        g = model.find('compute_burst_fraction')
        bd = {k: ('param', k) for k in ('fs', 'f_range', 'amp_threshes', 'min_n_cycles', 'min_burst_duration')}
        bd['filter_kwargs'] = ('dict', (('n_cycles', ('param', 'fk_n_cycles')),))
        t, _ = E.run(model, g.qual, dict(bd, **{g.params[0]: S, g.params[1]: ('param', 'sig')}))
        report(rep, 'UNITS-OUT', f'{centre}:burst_fraction', f'{g.path}:{g.node.lineno} compute_burst_fraction', t, U.ONE)
        n += 3
    for det, cols in (('detect_bursts_cycles', E.BURST_COLS['cycles']), ('detect_bursts_amp', E.BURST_COLS['amp'])):
        g = model.find(det)
        S = E.abstract_table('S', cols + E.SHAPE_COLS)
        r, _ = E.run(model, g.qual, {g.params[0]: S})
        lab = dict(r[1]).get('is_burst') if r and r[0] == 'table' else None
        if lab is not None:
            report(rep, 'UNITS-OUT', f'{det}:is_burst', f'{g.path}:{g.node.lineno} {det}', lab, U.ONE)
            n += 1
    # extremum / midpoint code
    g = model.find('find_extrema')
    for pad in (T.TRUE, T.FALSE):
        for fkn in ('n_cycles', 'n_seconds', 'None'):
            r, ctx = E.run(model, g.qual, c02.base(NONE, pad, c02.FK[fkn]), overrides=c02.OV)
            report(rep, 'UNIT-CONSISTENT', f'find_extrema:pad={pad[1]}:{fkn}', f'{g.path}:{g.node.lineno} find_extrema', r, None)
            flt = [e for e in ctx.trace if e['kind'] == 'call' and e['name'] in ('filter_signal', 'compute_filter_length')]
            for e in flt:
                report(rep, 'UNIT-CONSISTENT', f'find_extrema:pad={pad[1]}:{fkn}:{e["name"]}', e['where'], T.call(e['name'], e['args'], e['kwargs']), None)
            ext_units(rep, ctx, f'find_extrema:pad={pad[1]}:{fkn}')
            n += 1
    g = model.find('_find_flank_midpoints')
    for fl in (('rise', 'decay') if len(g.params) == 6 else ()):
        r, _ = E.run(model, g.qual, {g.params[0]: ('param', 'sig'), g.params[1]: C(fl), g.params[2]: ('param', 'n_flanks'), g.params[3]: ('atom', 'P', 'intarr'),
                                      g.params[4]: ('atom', 'TR', 'intarr'), g.params[5]: ('param', 'bias')})
        report(rep, 'UNIT-CONSISTENT', f'_find_flank_midpoints:{fl}', f'{g.path}:{g.node.lineno} _find_flank_midpoints', r, U.SAMP)
        n += 1
    g = model.find('find_flank_zerox')
    for fl in ('rise', 'decay'):
        r, _ = E.run(model, g.qual, {g.params[0]: ('param', 'x'), g.params[1]: C(fl), g.params[2]: ('param', 'level')})
        report(rep, 'UNIT-CONSISTENT', f'find_flank_zerox:{fl}', f'{g.path}:{g.node.lineno} find_flank_zerox', r, None)
        n += 1
    g = model.find('compute_band_amp')
    r, ctx = E.run(model, g.qual, {g.params[0]: E.abstract_table('S', list(E.SAMPLE_COLS['peak'].values())), 'sig': ('param', 'sig'), 'fs': ('param', 'fs'),
                                   'f_range': ('param', 'f_range'), 'n_cycles': ('param', 'n_cycles')})
    report(rep, 'UNIT-CONSISTENT', 'compute_band_amp', f'{g.path}:{g.node.lineno} compute_band_amp', r, U.V)
    ext_units(rep, ctx, 'compute_band_amp')
    sample_product(rep, model)
    # embedded positive examples: the inference must flag these on every run
    sig, fs = ('param', 'sig'), ('param', 'fs')
    col = ('col', 'S', 'period')
    ex = {'period/fs': (T.div(col, fs), U.SAMP), 'volt > 0.1': (T.cmp_('Gt', T.index(sig, ('atom', 'P', 'intarr')), C(T.Fraction(1, 10))), None),
          'allclose(sig, 0)': (T.call('allclose', (sig, C(0))), None), 'volt + samples': (T.add(T.index(sig, ('atom', 'P', 'intarr')), ('atom', 'TR', 'intarr')), None)}
    for k, (t, want) in ex.items():
        u, probs = U.unit_of(t)
        fired = bool(probs) or (want is not None and u != want)
        if fired:
            rep.ok('NO-ABS-LEVEL' if 'volt >' in k or 'allclose' in k else 'UNIT-CONSISTENT', f'embedded example fires: {k}', 'sa/rules/c10.py', found=probs[0][0] if probs else f'unit {U.name(u)}', nontrivial=False)
        else:
            rep.unresolved('UNIT-CONSISTENT', f'embedded example: {k}', 'sa/rules/c10.py', 'the unit inference no longer flags the embedded positive example')
    rep.ok('NO-ABS-LEVEL', 'pipeline', '-', found=f'{n} terms inferred without an absolute level in signal units')
    summ, det, rounds, ro = common.effects(model)
    for name in ('compute_features', 'compute_shape_features', 'compute_cyclepoints', 'find_extrema', 'compute_burst_features', 'compute_burst_fraction'):
        fn = model.find(name)
        hits = sorted((ln, c, via) for (w, ln, c, via) in det[fn.qual].mut if w[0] == 'P' and w[1] in ('find_extrema_kwargs', 'filter_kwargs', 'burst_kwargs', 'threshold_kwargs'))
        if hits:
            rep.violation('OPTIONS-STABLE', name, f'{fn.path}:{hits[0][0]} {name}', expected='no write through an option dictionary',
                          found='; '.join(f'{c}' + (f' [via {v}]' if v else '') for _, c, v in hits[:3]) + ': a value derived from this call\'s fs / f_range survives into the next call')
        else:
            rep.ok('OPTIONS-STABLE', name, f'{fn.path}:{fn.node.lineno} {name}', found='no write through an option dictionary')
    rep.floor('unit-inferred terms', n, 50)
