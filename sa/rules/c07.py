"""C07 - amplitude burst labels follow the dual-threshold rule."""
import ast
from .. import terms as T
from ..terms import C, NONE
from .. import engine as E
from . import c06


def check(rep, model, tier):
    _doc_defaults(rep, model)
    rep.rule('BF-DEF', 'burst_fraction == mean of the sample-wise dual-threshold mask over [last side, next side] inclusive, side by centring; the mask '
                       'is detect_bursts_dual_threshold(sig, fs, amp_threshes, f_range, min_n_cycles (None iff a duration is given), min_burst_duration, **filter_kwargs)')
    rep.rule('BF-BIND', 'the call of the sample-wise detector binds against the installed neurodsp signature')
    rep.rule('LABEL-DEF', 'is_burst written by detect_bursts_amp == run filter of burst_fraction >= burst_fraction_threshold (normal-form equality)')
    rep.rule('KEEP-COLS', 'detect_bursts_amp returns the input table with only is_burst added')
    rep.rule('ONE-MINCYC', 'in compute_features(amp), for every presence pattern of min_n_cycles in (burst options, thresholds), the sample-wise detector '
                           'and the run filter receive one and the same value: burst options > thresholds > 3; fs, f_range and the caller\'s signal reach the detector')
    rep.rule('DEFAULT-3', 'every default of a min_n_cycles parameter in the package is the literal 3')
    rep.rule('ROUTE-AMP', "compute_features(burst_method='amp') labels concat(burst_fraction, shape features) with detect_bursts_amp(**threshold_kwargs) and returns it")
    rep.assumptions += ['neurodsp detect_bursts_dual_threshold is out of scope: only its call is checked (signature read from the installed source)',
                        'mean of a boolean mask == mean of its 0/1 cast']
    fn = model.find('compute_burst_fraction')
    site = f'{fn.path}:{fn.node.lineno} compute_burst_fraction'
    n = 0
    for centre in ('peak', 'trough'):
        S = E.abstract_table('S', E.SHAPE_COLS + list(E.SAMPLE_COLS[centre].values()))
        for mbd in (NONE, ('param', 'min_burst_duration')):
            for fk in (NONE, ('dict', ()), ('dict', (('n_cycles', ('param', 'fk_n_cycles')),)), ('dict', (('n_seconds', ('param', 'fk_n_seconds')),))):
                bd = {k: ('param', k) for k in ('fs', 'f_range', 'amp_threshes', 'min_n_cycles')}
                bd.update(filter_kwargs=fk, min_burst_duration=mbd)
                impl, ctx = E.run(model, 'compute_burst_fraction', dict(bd, **{fn.params[0]: S, fn.params[1]: ('param', 'sig')}))
                sbd = dict(bd, filter_kwargs=('dict', ()) if fk == NONE else fk)
                spec, _ = E.spec('burst_fraction', dict(sbd, S=S, x=('param', 'sig'), centre=C(centre)))
                inst = f'{centre}:duration={"given" if mbd != NONE else "None"}:filter_kwargs={T.brief(fk, 40)}'
                rep.compare('BF-DEF', inst, site, impl, spec, ctx.unmodelled)
                n += 1
                if centre == 'peak' and mbd == NONE:
                    bind_external(rep, model, ctx, 'detect_bursts_dual_threshold', 'neurodsp.burst.detect_bursts_dual_threshold', 'BF-BIND', inst, site)
    # labels
    fn = model.find('detect_bursts_amp')
    site = f'{fn.path}:{fn.node.lineno} detect_bursts_amp'
    S = E.abstract_table('S', ['burst_fraction'] + E.SHAPE_COLS + list(E.SAMPLE_COLS['peak'].values()))
    bd = {k: ('param', k) for k in ('burst_fraction_threshold', 'min_n_cycles')}
    impl, ctx = E.run(model, 'detect_bursts_amp', dict(bd, **{fn.params[0]: S}))
    spec, _ = E.spec('labels_amp', dict(bd, S=S))
    if impl is None or impl[0] != 'table':
        rep.violation('LABEL-DEF', 'table', site, expected='the input table with an is_burst column', found=T.brief(impl, 200) if impl else 'no value is returned on this path (raises)')
    else:
        cols = dict(impl[1])
        rep.compare('LABEL-DEF', 'is_burst', site, cols.get('is_burst', ('missing', 'is_burst')), spec, ctx.unmodelled)
        others = {k: v for k, v in cols.items() if k != 'is_burst'}
        if others == dict(S[1]):
            rep.ok('KEEP-COLS', 'detect_bursts_amp', site, found=f'{len(others)} columns unchanged')
        else:
            rep.violation('KEEP-COLS', 'detect_bursts_amp', site, expected='input columns unchanged',
                          found=sorted(k for k in set(others) | set(dict(S[1])) if others.get(k) != dict(S[1]).get(k)))
    one_mincyc(rep, model)
    default3(rep, model)
    c06.route(rep, model, method='amp', detector='detect_bursts_amp', rule='ROUTE-AMP')
    rep.floor('burst_fraction scenarios', n, 16)


def one_mincyc(rep, model):
    fn = model.find('compute_features')
    site = f'{fn.path}:{fn.node.lineno} compute_features[amp]'
    B, Tm = ('param', 'B_min_n_cycles'), ('param', 'T_min_n_cycles')
    bks = {'None': NONE, 'empty': ('dict', ()), 'with': ('dict', (('min_n_cycles', B),)),
           'with+others': ('dict', (('amp_threshes', ('param', 'amp_threshes')), ('min_n_cycles', B)))}
    tks = {'without': ('dict', (('burst_fraction_threshold', ('param', 'bft')),)),
           'with': ('dict', (('burst_fraction_threshold', ('param', 'bft')), ('min_n_cycles', Tm))),
           'None': NONE}
    for bn, bk in bks.items():
        for tn, tk in tks.items():
            inst = f'burst_kwargs={bn}:thresholds={tn}'
            res, ctx = E.run(model, 'compute_features', {'burst_method': C('amp'), 'burst_kwargs': bk, 'threshold_kwargs': tk}, no_inline=E.HEAVY,
                             kinds={'fs': 'num', 'f_range': 'tuple', 'B_min_n_cycles': 'num', 'T_min_n_cycles': 'num', 'bft': 'num'})
            want = B if bn.startswith('with') else Tm if tn == 'with' else C(3)
            e1, e2 = E.calls_to(ctx, 'compute_burst_fraction'), E.calls_to(ctx, 'detect_bursts_amp')
            if len(e1) != 1 or len(e2) != 1 or e1[0]['guard'] != T.TRUE or e2[0]['guard'] != T.TRUE:
                rep.violation('ONE-MINCYC', inst, site, expected='one unconditional call each of compute_burst_fraction and detect_bursts_amp',
                              found=f'{len(e1)} / {len(e2)} calls')
                continue
            v1 = E.effective(model, 'compute_burst_fraction', e1[0], 'min_n_cycles')
            v2 = E.effective(model, 'detect_bursts_amp', e2[0], 'min_n_cycles')
            if v1 == want and v2 == want and not e1[0]['problems'] and not e2[0]['problems']:
                rep.ok('ONE-MINCYC', inst, site, found=f'both sinks receive {T.show(want)}')
            else:
                rep.violation('ONE-MINCYC', inst, site, expected=f'sample-wise detector and run filter both receive {T.show(want)}',
                              found=f'compute_burst_fraction gets {T.show(v1)}, detect_bursts_amp gets {T.show(v2)}; problems {e1[0]["problems"] + e2[0]["problems"]}')
            b = e1[0]['bound']
            cbf = model.find('compute_burst_fraction')
            got = tuple(b.get(p) for p in cbf.params[1:4])
            if got == (('param', 'sig'), ('param', 'fs'), ('param', 'f_range')):
                rep.ok('ONE-MINCYC', inst + ':sig/fs/f_range', site, found='caller\'s own signal, fs, f_range')
            else:
                rep.violation('ONE-MINCYC', inst + ':sig/fs/f_range', site, expected='(sig, fs, f_range) of compute_features',
                              found=tuple(T.brief(x, 40) if x else None for x in got))


def default3(rep, model):
    n = 0
    for q, f in sorted(model.funcs.items()):
        if 'min_n_cycles' in f.defaults:
            d = f.defaults['min_n_cycles']
            n += 1
            if isinstance(d, ast.Constant) and d.value == 3 and not isinstance(d.value, bool):
                rep.ok('DEFAULT-3', f.name, f'{f.path}:{f.node.lineno} {f.name}', found='3')
            else:
                rep.violation('DEFAULT-3', f.name, f'{f.path}:{f.node.lineno} {f.name}', expected='default 3', found=ast.unparse(d))
    rep.floor('min_n_cycles defaults', n, 4)


def bind_external(rep, model, ctx, short, dotted, rule, inst, site):
    """check a call event of an external function against its installed signature"""
    from ..srcmodel import external_function, Func
    node, path = external_function(dotted)
    if node is None:
        rep.unresolved(rule, f'{short}:{inst}', site, f'installed source of {dotted} not found')
        return
    ext = Func(dotted.rsplit('.', 1)[0], dotted, node, path=path)
    from ..calls import bind_args
    for e in E.calls_to(ctx, short):
        if e['kind'] != 'call':
            continue
        bound, problems = bind_args(ext, list(e['args']), dict(e['kwargs']), [])
        if problems:
            rep.violation(rule, f'{short}:{inst}', e['where'] or site, expected=f'binds against {dotted}{tuple(ext.params)}', found='; '.join(problems))
        else:
            rep.ok(rule, f'{short}:{inst}', e['where'] or site, found=f'{len(bound)} parameters bound')


def _doc_defaults(rep, model):
    from . import common as _c
    _c.doc_defaults(rep, model, ['detect_bursts_amp', 'compute_burst_fraction'])
