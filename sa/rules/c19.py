"""C19 - invalid settings are rejected, never silently analysed."""
import ast
import itertools
from .. import terms as T
from ..terms import C, NONE
from .. import engine as E
from .. import symeval as SE

INF = T.PINF
RANGE_TABLE = [
    # (function, parameter, (lo, hi))  -- DESIGN.md Appendix A.4
    *[(f, 'fs', (C(0), INF)) for f in ('find_extrema', 'compute_cyclepoints', 'compute_shape_features', 'compute_band_amp', 'compute_features',
                                       'compute_burst_fraction', 'limit_df', 'plot_burst_detect_summary', 'plot_burst_detect_param',
                                       'plot_cyclepoints_df', 'plot_cyclepoints_array')],
    ('compute_shape_features', 'n_cycles', (C(0), INF)), ('compute_band_amp', 'n_cycles', (C(0), INF)),
    ('detect_bursts_cycles', 'amp_fraction_threshold', (C(0), C(1))), ('detect_bursts_cycles', 'amp_consistency_threshold', (C(0), C(1))),
    ('detect_bursts_cycles', 'period_consistency_threshold', (C(0), C(1))), ('detect_bursts_cycles', 'monotonicity_threshold', (C(0), C(1))),
    ('detect_bursts_amp', 'burst_fraction_threshold', (C(0), C(1))),
    ('check_min_burst_cycles', 'min_n_cycles', (C(0), INF)),
]
OPTION_TABLE = [('compute_amp_consistency', 'direction', ['both', 'next', 'last']), ('compute_period_consistency', 'direction', ['both', 'next', 'last']),
                ('recompute_edge', 'direction', ['both', 'next', 'last'])]
CHAINS = [
    # (function, option parameter, documented values, extra bindings)
    ('compute_shape_features', 'center_extrema', ['peak', 'trough'], {'find_extrema_kwargs': NONE}),
    ('compute_features', 'burst_method', ['cycles', 'amp'], {'threshold_kwargs': ('dict', ()), 'burst_kwargs': NONE}),
    ('compute_burst_features', 'burst_method', ['cycles', 'amp'], {'burst_kwargs': ('dict', (('f_range', ('param', 'f_range')), ('fs', ('param', 'fs'))))}),
    ('find_extrema', 'first_extrema', ['peak', 'trough', None], {'filter_kwargs': NONE, 'pad': T.TRUE}),
    ('compute_features_2d', 'axis', [0, None], {'compute_features_kwargs': NONE}),
    ('compute_features_3d', 'axis', [0, 1, (0, 1)], {'compute_features_kwargs': NONE}),
    ('progress_bar', 'progress', [None, 'tqdm', 'tqdm.notebook'], {}),
]
BOGUS = [C('__not_an_option__'), C(7)]
ALLOWED_EXC = {'ValueError'}
EXC_EXCEPTIONS = {'bycycle.objs.fit.Bycycle.__getattr__': {'AttributeError'}}


def const_of(v):
    if isinstance(v, tuple):
        return ('tuple', tuple(C(x) for x in v))
    return C(v)


def check(rep, model, tier):
    rep.rule('MUST-CHECK', 'each validated parameter (DESIGN.md A.4) is range-checked with the documented bounds by an unconditional check_param_range call '
                           'that precedes every other use of the parameter in the function')
    rep.rule('MUST-CHECK-REL', 'amp_threshes are checked against each other (low in (0, high), high in (low, inf)); start/stop of limit_df / limit_signal, when given, '
                               'are checked against 0 and each other')
    rep.rule('OPTIONS', 'direction is validated by check_param_options against exactly the documented values')
    rep.rule('EXHAUSTIVE', 'for every if/elif chain over a documented option, an undocumented value reaches an unconditional raise ValueError and every documented value does not')
    rep.rule('GUARDS', 'dimensionality / fitted-state / first_extrema-override / fs,f_range-required / ndarray-type / label-count guards raise ValueError unconditionally in their scenario')
    rep.rule('EXC-TYPE', 'every raise statement of the package raises ValueError (AttributeError in __getattr__)')
    rep.rule('DTABLE', 'decision table of check_kwargs_shape: for every cell of (array 2-D/3-D with small extents) x axis x option-argument shape the outcome '
                       '(accept / ValueError) obtained by constant-folding the branch structure equals the documented grid (DESIGN.md A.5)')
    rep.rule('DTABLE-WIRED', 'compute_features_2d/3d pass (sigs, array-converted copy of the options, axis) to check_kwargs_shape unconditionally before any analysis')
    rep.assumptions += ['check_param_range(p, label, (lo, hi)) raises ValueError iff p < lo or p > hi; check_param_options iff p not in options (neurodsp/utils/checks.py read)',
                        'fs == 0 is rejected by neurodsp filter design, not by a bycycle check (not decided)', 'exceptions raised inside dependencies are out of scope']
    must_check(rep, model)
    checked_flow(rep, model)
    option_reach(rep, model)
    options(rep, model)
    exhaustive(rep, model)
    guards(rep, model)
    exc_type(rep, model)
    dtable(rep, model, tier)


# ---------------------------------------------------------------------------------------------- range checks
def uses(ev, term):
    return any(term in set(T.walk(a)) for a in list(ev['args']) + [v for _, v in ev['kwargs']] + list(ev.get('bound', {}).values()))


def allowed_precondition(c):
    """guards that may precede a range check: failed-type rejection and the empty-array shortcut (nothing to label)"""
    if c[0] == 'isinstance' or (c[0] == 'not' and c[1][0] == 'isinstance'):
        return True
    if c[0] == 'not':
        return allowed_precondition(c[1])
    if c[0] == 'cmp' and c[1] in ('NotEq', 'Eq') and ((c[2] == C(0) and c[3][0] == 'len') or (c[3] == C(0) and c[2][0] == 'len')):
        return True
    if c[0] == 'cmp0' and len(c[2][2]) == 1 and c[2][2][0][0][0] == 'len':
        return True
    return False


def option_reach(rep, model):
    """an option is validated on every branch of the group function that accepts it, not only on the branch that happens to use it"""
    rep.rule('OPTION-REACH', 'compute_features_2d rejects an unknown progress value for axis=0 and for axis=None, and with axis=None and a per-epoch option list an unknown '
                             'burst_method in ANY entry raises ValueError (entry 0 through compute_features, later entries in the re-labelling ladder)')
    from . import grp, common
    g = model.find('compute_features_2d')
    gsite = f'{g.path}:{g.node.lineno} compute_features_2d'
    for axis, an in ((C(0), '0'), (NONE, 'None')):
        ctx = SE.Ctx(model, no_inline=tuple(x for x in grp.NI if x != 'progress_bar'), kinds={'sigs': 'ndarray'})
        res, _ = E.run(model, g.qual, {'sigs': grp.SIGS2, 'compute_features_kwargs': NONE, 'axis': axis, 'progress': BOGUS[0]}, ctx=ctx)
        unc = [r for r in ctx.raises if r[0] == 'ValueError']
        if common.covers_all([r[1] for r in unc]):
            rep.ok('OPTION-REACH', f'progress:axis={an}', unc[0][2], found='unknown progress value rejected' + ('' if any(r[1] == T.TRUE for r in unc) else ' on every path'))
        else:
            rep.violation('OPTION-REACH', f'progress:axis={an}', gsite, expected='ValueError for an unknown progress value',
                          found=f'no unconditional raise on this branch (returns {T.brief(res, 60) if res else None})', key=f'OPTION-REACH@progress:axis={an}')
    K = grp.K
    bad = ('dict', tuple(sorted(dict(dict(K(1)[1]), burst_method=BOGUS[0]).items())))
    for pos, kw in ((1, ('list', (K(0), bad))), (2, ('list', (K(0), K(1), bad))), ('1 of 3', ('list', (K(0), bad, K(1))))):       # last entries and a middle one
        ctx = SE.Ctx(model, no_inline=grp.NI + ('progress_bar',), kinds=dict({'sigs': 'ndarray'}, **{f'K{i}': 'dict' for i in range(6)}))
        res, _ = E.run(model, g.qual, {'sigs': grp.SIGS2, 'compute_features_kwargs': kw, 'axis': NONE, 'progress': NONE}, ctx=ctx)
        unc = [r for r in ctx.raises if r[0] == 'ValueError']
        if common.covers_all([r[1] for r in unc]):
            rep.ok('OPTION-REACH', f'burst_method of entry {pos}:axis=None', unc[0][2], found='unknown burst method rejected')
        else:
            rep.violation('OPTION-REACH', f'burst_method of entry {pos}:axis=None', gsite, expected='ValueError for an unknown burst_method in a per-epoch option set',
                          found='the entry is skipped silently: its epoch keeps the labels of the first option set', key=f'OPTION-REACH@burst_method:entry{str(pos).replace(" ", "")}')


def validation_helper(fn):
    """callees that are followed when looking for a validation call: the package's own check helpers and small private helpers
    (a range / option check wrapped in a helper is still that check); everything else stays an uninterpreted call"""
    return fn.mod.endswith('utils.checks') or fn.name.startswith('_') or fn.name.startswith('check_')


def checked_flow(rep, model):
    """the amplitude method has two consumers of min_n_cycles and only one of them (the run filter) range-checks it: whatever value the unchecked
    consumer (the sample-wise detector inside compute_burst_fraction) receives must be the value the checked one receives"""
    rep.rule('CHECKED-FLOW', 'in compute_features(amp), for every way of supplying min_n_cycles (burst options and / or thresholds), the value handed to the sample-wise '
                             'detector is the value handed to detect_bursts_amp, whose run filter range-checks it: no min_n_cycles is used without having been validated')
    fn = model.find('compute_features')
    site = f'{fn.path}:{fn.node.lineno} compute_features[amp]'
    B, Tm = ('param', 'B_min_n_cycles'), ('param', 'T_min_n_cycles')
    bks = {'None': NONE, 'with': ('dict', (('min_n_cycles', B),))}
    tks = {'without': ('dict', (('burst_fraction_threshold', ('param', 'bft')),)), 'with': ('dict', (('burst_fraction_threshold', ('param', 'bft')), ('min_n_cycles', Tm)))}
    for bn, bk in bks.items():
        for tn, tk in tks.items():
            inst = f'burst_kwargs={bn}:thresholds={tn}'
            res, ctx = E.run(model, 'compute_features', {'burst_method': C('amp'), 'burst_kwargs': bk, 'threshold_kwargs': tk}, no_inline=E.HEAVY,
                             kinds={'fs': 'num', 'f_range': 'tuple', 'B_min_n_cycles': 'num', 'T_min_n_cycles': 'num', 'bft': 'num'})
            e1, e2 = E.calls_to(ctx, 'compute_burst_fraction'), E.calls_to(ctx, 'detect_bursts_amp')
            if len(e1) != 1 or len(e2) != 1:
                rep.violation('CHECKED-FLOW', inst, site, expected='one call each of compute_burst_fraction and detect_bursts_amp', found=f'{len(e1)} / {len(e2)} calls')
                continue
            v1 = E.effective(model, 'compute_burst_fraction', e1[0], 'min_n_cycles')
            v2 = E.effective(model, 'detect_bursts_amp', e2[0], 'min_n_cycles')
            if v1 == v2:
                rep.ok('CHECKED-FLOW', inst, site, found=f'detector and range-checked run filter both receive {T.show(v1)}')
            else:
                rep.violation('CHECKED-FLOW', inst, site, expected='the sample-wise detector receives the value that is range-checked',
                              found=f'detector gets {T.show(v1)} (never validated), run filter checks {T.show(v2)}')


def must_check(rep, model):
    n = 0
    for fname, param, (lo, hi) in RANGE_TABLE:
        fn = model.find(fname)
        site = f'{fn.path}:{fn.node.lineno} {fname}'
        inst = f'{fname}({param})'
        if param not in fn.params + fn.kwonly:
            rep.unresolved('MUST-CHECK', inst, site, f'parameter {param!r} vanished from the signature')
            continue
        p = ('param', param)
        bound = {param: p}
        if fname == 'check_min_burst_cycles':
            ctx = SE.Ctx(model, kinds={fn.params[0]: 'ndarray'})
        else:
            ctx = SE.Ctx(model)
        ctx.inline_only = validation_helper
        E.run(model, fn.qual, bound, ctx=ctx)
        def covers(a):
            # the checked value is the parameter itself on every path where it is kept; branches that replace it by a constant inside the bounds are harmless
            if a == p:
                return True
            if a[0] == 'gamma':
                leaves = [a[2], a[3]]
                return any(covers(x) for x in leaves) and all(covers(x) or (T.isnum(x) and in_bounds(x)) for x in leaves)
            return False

        def in_bounds(c):
            lo_ok = not T.isnum(lo) or c[1] >= lo[1]
            hi_ok = not T.isnum(hi) or c[1] <= hi[1]
            return lo_ok and hi_ok
        checks = [e for e in ctx.trace if e['kind'] == 'call' and e['name'] == 'check_param_range' and e['args'] and covers(e['args'][0])]
        n += 1
        good = [e for e in checks if len(e['args']) == 3 and T.index(e['args'][2], C(0)) == lo and T.index(e['args'][2], C(1)) == hi]
        if not checks:
            rep.violation('MUST-CHECK', inst, site, expected=f'check_param_range({param}, ..., ({T.show(lo)}, {T.show(hi)}))', found='no range check on this parameter')
            continue
        if not good:
            rep.violation('MUST-CHECK', inst, checks[0]['where'], expected=f'bounds ({T.show(lo)}, {T.show(hi)})', found=T.brief(checks[0]['args'][2], 80))
            continue
        e = good[0]
        # path condition: only the non-empty-input guard of the ndarray helper may precede it
        pre = [c for c in e['perm'] if not allowed_precondition(c)]
        # the same shortcut written as an enclosing `if` instead of an early return: its condition is part of the guard
        gconj = [] if e['guard'] == T.TRUE else list(e['guard'][1]) if e['guard'][0] == 'and' else [e['guard']]
        pre += [c for c in gconj if not allowed_precondition(c)]
        if e['loops'] or pre:
            rep.violation('MUST-CHECK', inst, e['where'], expected='an unconditional check (only a type guard or the empty-input shortcut may precede it)',
                          found=f'check only under {T.brief(T.and_([e["guard"]] + pre), 140)}')
            continue
        first_use = next((x for x in ctx.trace if x['kind'] in ('call', 'pkgcall', 'store', 'mutate') and not x.get('inlined') and uses(x, p)), None)
        if first_use is not e and first_use is not None and first_use['name'] != 'check_param_range':
            rep.violation('MUST-CHECK', inst, e['where'], expected='the check precedes every other use of the parameter',
                          found=f'{first_use["name"]} at {first_use["where"]} uses {param} first')
            continue
        rep.ok('MUST-CHECK', inst, e['where'], found=f'unconditional, bounds ({T.show(lo)}, {T.show(hi)})')
    rep.floor('range-checked (function, parameter) pairs', n, 19)
    # relational checks
    fn = model.find('compute_burst_fraction')
    ctx = SE.Ctx(model)
    ctx.inline_only = validation_helper
    at = ('param', 'amp_threshes')
    E.run(model, fn.qual, {'amp_threshes': at}, ctx=ctx)
    got = {(e['args'][0], T.index(e['args'][2], C(0)), T.index(e['args'][2], C(1))) for e in ctx.trace
           if e['name'] == 'check_param_range' and len(e['args']) == 3 and e['guard'] == T.TRUE}
    lo_, hi_ = T.index(at, C(0)), T.index(at, C(1))
    want = {(lo_, C(0), hi_), (hi_, lo_, INF)}
    site = f'{fn.path}:{fn.node.lineno} compute_burst_fraction'
    if want <= got:
        rep.ok('MUST-CHECK-REL', 'amp_threshes', site, found='low in (0, high) and high in (low, inf)')
    else:
        rep.violation('MUST-CHECK-REL', 'amp_threshes', site, expected='check_param_range(low, (0, high)) and check_param_range(high, (low, inf)), unconditional',
                      found=sorted((T.show(a), T.show(b), T.show(c)) for a, b, c in got))
    for fname in ('limit_df', 'limit_signal'):
        fn = model.find(fname)
        site = f'{fn.path}:{fn.node.lineno} {fname}'
        s, e_ = ('atom', 'start', 'num'), ('atom', 'stop', 'num')
        ctx = SE.Ctx(model)
        ctx.inline_only = validation_helper
        E.run(model, fn.qual, {'start': s, 'stop': e_}, ctx=ctx)
        got = {(e['args'][0], T.index(e['args'][2], C(0)), T.index(e['args'][2], C(1))) for e in ctx.trace
               if e['name'] == 'check_param_range' and len(e['args']) == 3 and e['guard'] == T.TRUE}
        want = {(s, C(0), e_), (e_, s, INF)}
        if want <= got:
            rep.ok('MUST-CHECK-REL', f'{fname}(start, stop)', site, found='start in (0, stop), stop in (start, inf) when both are given')
        else:
            rep.violation('MUST-CHECK-REL', f'{fname}(start, stop)', site, expected='start in (0, stop) and stop in (start, inf)',
                          found=sorted((T.show(a), T.show(b), T.show(c)) for a, b, c in got))
        for label, bound, want1 in (('stop omitted', {'start': s, 'stop': NONE}, {(s, C(0), INF)}), ('start omitted', {'start': NONE, 'stop': e_}, {(e_, C(0), INF)})):
            ctx = SE.Ctx(model)
            ctx.inline_only = validation_helper
            E.run(model, fn.qual, bound, ctx=ctx)
            got1 = {(e['args'][0], T.index(e['args'][2], C(0)), T.index(e['args'][2], C(1))) for e in ctx.trace
                    if e['name'] == 'check_param_range' and len(e['args']) == 3 and e['guard'] == T.TRUE and e['args'][0] in (s, e_)}
            # limit_df replaces an omitted start by 0 before checking: the check on 0 is vacuous and not required
            if want1 <= got1 and not (got1 - want1):
                rep.ok('MUST-CHECK-REL', f'{fname}({label})', site, found='the given limit is checked against (0, inf)')
            else:
                rep.violation('MUST-CHECK-REL', f'{fname}({label})', site, expected=sorted((T.show(a), T.show(b), T.show(c)) for a, b, c in want1),
                              found=sorted((T.show(a), T.show(b), T.show(c)) for a, b, c in got1))


def options(rep, model):
    for fname, param, opts in OPTION_TABLE:
        fn = model.find(fname)
        site = f'{fn.path}:{fn.node.lineno} {fname}'
        p = ('param', param)
        ctx = SE.Ctx(model)
        ctx.inline_only = validation_helper
        E.run(model, fn.qual, {param: p}, ctx=ctx)
        evs = [e for e in ctx.trace if e['name'] == 'check_param_options' and e['args'] and e['args'][0] == p and e['guard'] == T.TRUE]
        want = T.sort_terms(C(o) for o in opts)
        if evs and len(evs[0]['args']) == 3 and evs[0]['args'][2][0] in ('list', 'tuple') and T.sort_terms(evs[0]['args'][2][1]) == want:
            first_use = next((x for x in ctx.trace if x['kind'] in ('call', 'pkgcall', 'store') and not x.get('inlined') and uses(x, p)), None)
            if first_use is evs[0]:
                rep.ok('OPTIONS', f'{fname}({param})', evs[0]['where'], found=opts)
            else:
                rep.violation('OPTIONS', f'{fname}({param})', site, expected='validated before use', found=f'{first_use["name"]} uses it first')
        else:
            rep.violation('OPTIONS', f'{fname}({param})', site, expected=f'check_param_options({param}, ..., {opts}) unconditionally',
                          found=[T.brief(e['args'][2], 60) for e in evs] or 'no such call')


# ---------------------------------------------------------------------------------------------- option chains
HEAVY_OFF = ('compute_cyclepoints', 'compute_durations', 'compute_extrema_voltage', 'compute_symmetry', 'compute_band_amp', 'rename_extrema_df',
             'compute_burst_fraction', 'compute_amp_fraction', 'compute_amp_consistency', 'compute_period_consistency', 'compute_monotonicity',
             'detect_bursts_cycles', 'detect_bursts_amp', 'drop_samples_df', 'compute_features', 'epoch_df', 'check_kwargs_shape',
             'find_flank_zerox')


def outcome(model, fname, bound, no_inline=HEAVY_OFF, kinds=None, facts=None):
    ctx = SE.Ctx(model, no_inline=no_inline, kinds=kinds)
    if facts:
        ctx.facts.update(facts)
    fn = model.find(fname) if fname not in model.funcs else model.funcs[fname]
    res, _ = E.run(model, fn.qual, bound, ctx=ctx)
    unconditional = [r for r in ctx.raises if r[1] == T.TRUE]
    return res, unconditional, ctx


def exhaustive(rep, model):
    n = 0
    for fname, param, docs, extra in CHAINS:
        fn = model.find(fname)
        site = f'{fn.path}:{fn.node.lineno} {fname}'
        noi = tuple(x for x in HEAVY_OFF if x != fname)
        if fname == 'compute_features':
            noi = noi + ('compute_shape_features',)
        kinds = {'sigs': 'ndarray'}
        for b in BOGUS:
            res, unc, ctx = outcome(model, fname, dict(extra, **{param: b}), noi, kinds)
            n += 1
            if res is None and unc and unc[0][0] in ALLOWED_EXC:
                rep.ok('EXHAUSTIVE', f'{fname}({param}={T.show(b)})', unc[0][2], found=f'raise {unc[0][0]}')
            else:
                rep.violation('EXHAUSTIVE', f'{fname}({param}={T.show(b)})', site, expected='unconditional ValueError for an undocumented value',
                              found=f'returns {T.brief(res, 80) if res else None}; raises {[(r[0], T.brief(r[1], 50)) for r in ctx.raises][:3]}')
        for d in docs:
            res, unc, ctx = outcome(model, fname, dict(extra, **{param: const_of(d)}), noi, kinds)
            n += 1
            if unc:
                rep.violation('EXHAUSTIVE', f'{fname}({param}={d!r})', unc[0][2], expected='a documented value is accepted', found=f'unconditional raise {unc[0][0]}')
            else:
                rep.ok('EXHAUSTIVE', f'{fname}({param}={d!r})', site, found='accepted')
        # documented options in the docstring agree with the oracle table
        doc = fn.options.get(param)
        if doc is not None and sorted(map(repr, doc)) != sorted(map(repr, docs)):
            rep.violation('EXHAUSTIVE', f'{fname}({param}):documented set', site, expected=docs, found=doc)
    rep.floor('option-chain scenarios', n, 30)


def guards(rep, model):
    def expect_raise(inst, fname, bound, kinds=None, facts=None, no_inline=HEAVY_OFF, exc='ValueError', forbid=()):
        fn = model.funcs[fname] if fname in model.funcs else model.find(fname)
        site = f'{fn.path}:{fn.node.lineno} {fn.name}'
        res, unc, ctx = outcome(model, fname, bound, no_inline, kinds, facts)
        work = [e for e in ctx.trace if e['kind'] in ('pkgcall', 'call') and e['name'].rsplit('.', 1)[-1] in forbid]
        if res is None and unc and unc[0][0] == exc and not work:
            rep.ok('GUARDS', inst, unc[0][2], found=f'raise {exc} before any work')
        else:
            rep.violation('GUARDS', inst, site, expected=f'unconditional {exc} before {list(forbid)}',
                          found=f'result {T.brief(res, 60) if res else None}; raises {[(r[0], T.brief(r[1], 50)) for r in ctx.raises][:3]}; work {[e["name"] for e in work]}')
    sig = ('param', 'sig')
    from .c14 import SETTINGS, BY, GRP, KINDS
    for nd in (0, 2, 3):
        ctx = SE.Ctx(model, no_inline=('compute_features',), kinds=KINDS)
        ctx.facts[('ndim', sig)] = C(nd)
        o = E.make_object(ctx, model, BY, SETTINGS)
        ctx.raises.clear()
        ctx.trace.clear()
        res, _ = E.run(model, f'{BY}.fit', {'self': o}, ctx=ctx)
        f = model.funcs[f'{BY}.fit']
        unc = [r for r in ctx.raises if r[1] == T.TRUE]
        if unc and unc[0][0] == 'ValueError' and not E.calls_to(ctx, 'compute_features'):
            rep.ok('GUARDS', f'Bycycle.fit({nd}-D signal)', unc[0][2], found='ValueError before analysis')
        else:
            rep.violation('GUARDS', f'Bycycle.fit({nd}-D signal)', f'{f.path}:{f.node.lineno} Bycycle.fit', expected='ValueError', found=[(r[0], T.brief(r[1], 50)) for r in ctx.raises])
    for nd in (1, 4):
        ctx = SE.Ctx(model, no_inline=('compute_features_2d', 'compute_features_3d'), kinds=KINDS)
        ctx.facts[('ndim', ('param', 'sigs'))] = C(nd)
        o = E.make_object(ctx, model, GRP, SETTINGS)
        ctx.raises.clear()
        ctx.trace.clear()
        E.run(model, f'{GRP}.fit', {'self': o}, ctx=ctx)
        f = model.funcs[f'{GRP}.fit']
        unc = [r for r in ctx.raises if r[1] == T.TRUE]
        work = [e for e in ctx.trace if e['kind'] == 'pkgcall' and e['name'].rsplit('.', 1)[-1] in ('compute_features_2d', 'compute_features_3d')]
        if unc and unc[0][0] == 'ValueError' and not work:
            rep.ok('GUARDS', f'BycycleGroup.fit({nd}-D array)', unc[0][2], found='ValueError before analysis')
        else:
            rep.violation('GUARDS', f'BycycleGroup.fit({nd}-D array)', f'{f.path}:{f.node.lineno} BycycleGroup.fit', expected='ValueError', found=[(r[0], T.brief(r[1], 50)) for r in ctx.raises])
    ctx = SE.Ctx(model, no_inline=('plot_burst_detect_summary',), kinds=KINDS)
    o = E.make_object(ctx, model, BY, SETTINGS)
    ctx.raises.clear()
    ctx.trace.clear()
    E.run(model, f'{BY}.plot', {'self': o}, ctx=ctx)
    f = model.funcs[f'{BY}.plot']
    unc = [r for r in ctx.raises if r[1] == T.TRUE]
    if unc and unc[0][0] == 'ValueError' and not E.calls_to(ctx, 'plot_burst_detect_summary'):
        rep.ok('GUARDS', 'Bycycle.plot(before fit)', unc[0][2], found='ValueError before plotting')
    else:
        rep.violation('GUARDS', 'Bycycle.plot(before fit)', f'{f.path}:{f.node.lineno} Bycycle.plot', expected='ValueError', found=[(r[0], T.brief(r[1], 50)) for r in ctx.raises])
    expect_raise('compute_shape_features(first_extrema override)', 'compute_shape_features',
                 {'find_extrema_kwargs': ('dict', (('first_extrema', C('trough')),))}, forbid=('compute_cyclepoints', 'find_extrema'))
    expect_raise("compute_burst_features('amp' without fs/f_range)", 'compute_burst_features',
                 {'burst_method': C('amp'), 'burst_kwargs': ('dict', ())}, forbid=('compute_burst_fraction',))
    expect_raise('check_min_burst_cycles(list)', 'check_min_burst_cycles', {'is_burst': ('list', (T.TRUE,))})
    fl = model.find('flatten_dfs')
    for label, dfs, nlab in (('1-D list', ('list', (('atom', 'df0', 'table'), ('atom', 'df1', 'table'))), 3),
                             ('2-D list', ('list', (('list', (('atom', 'df00', 'table'), ('atom', 'df01', 'table'))),)), 3)):
        expect_raise(f'flatten_dfs({label}, wrong label count)', 'flatten_dfs',
                     {fl.params[0]: dfs, fl.params[1]: ('shaped', 'labels', (nlab,))}, forbid=('concat',))


def exc_type(rep, model):
    n = 0
    for q, fn in sorted(model.funcs.items()):
        allowed = ALLOWED_EXC | EXC_EXCEPTIONS.get(q, set())
        for node in ast.walk(fn.node):
            if isinstance(node, ast.Raise):
                n += 1
                e = node.exc.func if isinstance(node.exc, ast.Call) else node.exc
                name = ast.unparse(e) if e is not None else '(re-raise)'
                if isinstance(node.exc, ast.Call) and isinstance(e, ast.Name):
                    # raise helper(...): the type is what the helper constructs in each of its returns
                    r_ = model.resolve(fn.mod, e.id)
                    if isinstance(r_, str) and r_ in model.funcs:
                        rets = [x.value for x in ast.walk(model.funcs[r_].node) if isinstance(x, ast.Return)]
                        kinds = {ast.unparse(x.func) for x in rets if isinstance(x, ast.Call)}
                        if rets and len(kinds) == 1 and all(isinstance(x, ast.Call) for x in rets):
                            name = kinds.pop()
                if name in allowed:
                    rep.ok('EXC-TYPE', f'{fn.name}:{name}', f'{fn.path}:{node.lineno} {fn.name}', found=name, nontrivial=False)
                else:
                    rep.violation('EXC-TYPE', f'{fn.name}:{name}', f'{fn.path}:{node.lineno} {fn.name}', expected=sorted(allowed), found=name)
    rep.floor('raise statements', n, 18)


# ---------------------------------------------------------------------------------------------- decision table
def expected_cell(sh, axis, kw):
    """DESIGN.md A.5"""
    if kw is None or kw == 'dict':
        return 'ACCEPT'
    lead = sh[:-1]
    if len(kw) == 3:
        return 'REJECT'
    if len(lead) == 1:
        return 'ACCEPT' if axis in (0, None) and not isinstance(axis, bool) and kw == (lead[0],) else 'REJECT'
    if axis == 0 and not isinstance(axis, tuple):
        return 'ACCEPT' if kw == (lead[0],) else 'REJECT'
    if axis == 1 and not isinstance(axis, tuple):
        return 'ACCEPT' if kw == (lead[1],) else 'REJECT'
    if axis == (0, 1):
        return 'ACCEPT' if kw == lead else 'REJECT'
    return 'REJECT'


def dtable(rep, model, tier):
    fn = model.find('check_kwargs_shape')
    site = f'{fn.path}:{fn.node.lineno} check_kwargs_shape'
    ext = (1, 2, 3) if tier == 'thorough' else (2, 3)
    kext = (1, 2, 3, 4) if tier == 'thorough' else (2, 3, 4)
    N = 50
    shapes = [(a, N) for a in ext] + [(a, b, N) for a in ext for b in ext]
    axes = [0, 1, (0, 1), None, 2, -1, (1, 0), 'rows']
    kws = [None, 'dict'] + [(k,) for k in kext] + [(a, b) for a in kext for b in kext] + [(2, 3, 1), (1, 1, 1)]
    n = bad = 0
    sample = []
    for sh, ax, kw in itertools.product(shapes, axes, kws):
        kt = NONE if kw is None else ('dict', ()) if kw == 'dict' else ('shaped', 'kwargs', kw)
        ctx = SE.Ctx(model)
        res, _ = E.run(model, fn.qual, {fn.params[0]: ('shaped', 'sigs', sh), fn.params[1]: kt, fn.params[2]: const_of(ax)}, ctx=ctx)
        unc = [r for r in ctx.raises if r[1] == T.TRUE]
        cond = [r for r in ctx.raises if r[1] != T.TRUE]
        if res is None and unc:
            got = 'REJECT' if unc[0][0] == 'ValueError' else f'raises {unc[0][0]}'
        elif res == NONE and not cond:
            got = 'ACCEPT'
        else:
            got = f'undecided (result {T.brief(res, 40) if res else None}, conditional raises {[(r[0], T.brief(r[1], 40)) for r in cond][:2]})'
        want = expected_cell(sh, ax, kw)
        n += 1
        cell = f'array{sh[:-1]} axis={ax!r} options={kw}'
        if got != want:
            bad += 1
            if got.startswith('undecided'):
                rep.unresolved('DTABLE', cell, site, got)
            else:
                rep.violation('DTABLE', cell, site, expected=want, found=got)
        elif len(sample) < 6 and kw not in (None, 'dict'):
            sample.append(f'{cell} -> {got}')
    if not bad:
        rep.ok('DTABLE', f'{n} cells', site, found=f'all {n} cells agree with the documented grid; e.g. {sample[:3]}')
    rep.notes['decision_table_cells'] = n
    rep.notes['exhaustive'] = True
    rep.floor('decision-table cells', n, 300)
    # wiring in the group functions
    for g in ('compute_features_2d', 'compute_features_3d'):
        gf = model.find(g)
        gsite = f'{gf.path}:{gf.node.lineno} {g}'
        for label, kw, kind in (('list', ('param', 'compute_features_kwargs'), 'list'), ('None', NONE, None)):
            ctx = SE.Ctx(model, no_inline=('check_kwargs_shape', 'compute_features', 'compute_features_2d', 'epoch_df', '_proxy_2d', '_proxy_3d', 'progress_bar',
                                           'detect_bursts_cycles', 'detect_bursts_amp'),
                         kinds={'compute_features_kwargs': kind} if kind else {})
            E.run(model, gf.qual, {'compute_features_kwargs': kw, 'axis': ('param', 'axis')}, ctx=ctx)
            first = next((e for e in ctx.trace if (e['kind'] in ('pkgcall',) and not e.get('inlined')) or (e['kind'] == 'call' and e['name'].startswith('pool'))), None)
            ck = model.find('check_kwargs_shape')
            if first is None or not first['name'].endswith('check_kwargs_shape') or first['guard'] != T.TRUE:
                rep.violation('DTABLE-WIRED', f'{g}[{label}]', gsite, expected='check_kwargs_shape is the first call, unconditional',
                              found=(first['name'], T.brief(first['guard'], 60)) if first else 'no call')
                continue
            b = first['bound']
            sg = T.strip_nd(b.get(ck.params[0])) if b.get(ck.params[0]) else None
            if sg is not None and sg[0] == 'call' and sg[1] == 'astype' and sg[2]:
                sg = sg[2][0]              # an element-type conversion keeps the shape the grid is about (what it does to the values is C11 / C12's business)
            ok = sg == ('param', 'sigs') and b.get(ck.params[2]) == ('param', 'axis')
            k = b.get(ck.params[1])
            if kind == 'list':
                ok = ok and k is not None and k[0] == 'nd' and k[1] == ('param', 'compute_features_kwargs')
            else:
                ok = ok and k == NONE
            if ok:
                rep.ok('DTABLE-WIRED', f'{g}[{label}]', gsite, found='(sigs, array(copy of options), axis)')
            else:
                rep.violation('DTABLE-WIRED', f'{g}[{label}]', gsite, expected='(sigs, np.array(deepcopy(options)) for a list / None, axis)',
                              found={p: T.brief(v, 60) for p, v in b.items()})
