"""C02 - extrema are raw-signal extremes of narrowband half-waves."""
from .. import terms as T
from ..terms import C, NONE
from .. import engine as E
from .. import symeval as SE
from . import common

RX, DX = ('atom', 'RX', 'intarr'), ('atom', 'DX', 'intarr')
SIG = ('param', 'sig')


def flank_override(fr, bound, n):
    """crossings of the narrowband signal as atoms (the crossing rule itself is the CROSSING instance)"""
    fl = bound.get('flank')
    if fl in (C('rise'), C('decay')) and bound.get('midpoint') in (None, NONE):
        return RX if fl == C('rise') else DX
    return None


OV = {'find_flank_zerox': flank_override}
FK = {'None': NONE, 'empty': ('dict', ()), 'n_cycles': ('dict', (('n_cycles', ('param', 'fk_n_cycles')),)), 'n_seconds': ('dict', (('n_seconds', ('param', 'fk_n_seconds')),))}


def base(fe, pad, fk):
    return {'sig': SIG, 'fs': ('param', 'fs'), 'f_range': ('param', 'f_range'), 'boundary': ('param', 'boundary'), 'first_extrema': fe,
            'filter_kwargs': fk, 'pass_type': ('param', 'pass_type'), 'pad': pad}


def sample_neg(rep, model):
    """find_extrema is called on recordings as they are stored (also raw integer counts): the raw samples are searched with argmax / argmin as they are, never negated
    (a negation wraps for unsigned types and at the lower rail of signed ones, which moves a trough that sits on the rail)"""
    import ast
    from . import common
    rep.rule('SAMPLE-NEG', 'no function of bycycle.cyclepoints.extrema reachable from find_extrema applies a unary minus to raw sample values: peaks are the argmax and troughs the '
                           'argmin of the signal itself (argmax(-x) is argmin(x) only where -x cannot wrap)')
    n = 0
    for q in sorted(common.reachable(model, ['find_extrema'])):
        f = model.funcs[q]
        if not f.mod.endswith('cyclepoints.extrema'):
            continue
        n += 1
        hits = common.sample_arith(f.node, [p for p in f.params if p == 'sig' or p.startswith('sig_')])['neg']
        if hits:
            rep.violation('SAMPLE-NEG', f.name, f'{f.path}:{hits[0][0]} {f.name}', expected='the raw signal searched as it is',
                          found='; '.join(t for _, t in hits[:3]) + ': wraps for unsigned integer recordings and at the lower rail of signed ones')
        else:
            rep.ok('SAMPLE-NEG', f.name, f'{f.path}:{f.node.lineno} {f.name}', found='no negation of sample values')
    ex = ast.parse('def f(sig, a, b):\n    w = -sig[a:b]\n    return np.argmax(w) + a, -a\n').body[0]
    got = common.sample_arith(ex, ['sig'])['neg']
    if len(got) == 1 and got[0][1] == '-sig[a:b]':
        rep.ok('SAMPLE-NEG', 'embedded example', 'sa/rules/c02.py', found='fires on the negated window, silent on the negated index', nontrivial=False)
    else:
        rep.unresolved('SAMPLE-NEG', 'embedded example', 'sa/rules/c02.py', f'the taint query no longer behaves as expected: {got}')
    rep.floor('extremum-search functions scanned for sample negation', n, 1)


def check(rep, model, tier):
    _doc_defaults(rep, model)
    sample_neg(rep, model)
    rep.rule('FE-DEF', 'find_extrema == reference (sa/refspec/cyclepoints.py) for first_extrema in {peak, trough, None} x pad x filter options: counts of closed half-waves, '
                       'scanning loops, arg-extrema of the raw signal with the window start added back, un-padding, strict two-sided boundary on the original length, trimming')
    rep.rule('PROVENANCE', 'every argmax / argmin operand is a slice of the RAW signal (the parameter or its np.pad), never of the filtered signal; the crossings come from '
                           'find_flank_zerox(filter_signal(<same raw/padded signal>, fs, pass_type, f_range, remove_edges=False, **filter_kwargs), rise | decay)')
    rep.rule('POLARITY', 'peaks use argmax over (rise crossing, next decay crossing), troughs argmin over (decay crossing, next rise crossing); the trough loop is the peak loop under '
                         'the swap rise<->decay, max<->min (sibling symmetry)')
    rep.rule('PAD-AGREE', 'the offset removed after the search equals the pad width given to np.pad, and is 0 without padding')
    rep.rule('BOUNDARY', 'an extremum is kept iff idx > boundary and idx < len(original signal) - boundary (both strict, length before padding)')
    rep.rule('CROSSING', 'find_flank_zerox: crossing at i iff below[i] and not below[i+1] with below = (x <= level) for a rise and (x > level) for a decay; level defaults to 0; '
                         'the centre of the segment when there is no crossing')
    rep.rule('ARGS-INTACT', 'find_extrema / find_flank_zerox write through none of their arguments: the raw signal is still the caller\'s when the arg-extrema are taken, and a '
                            'filter_kwargs dictionary is honoured unchanged by every call that receives it (a call that consumes entries makes the next call filter with defaults)')
    common.args_intact(rep, model, ['find_extrema', 'find_flank_zerox'], why='signal and filter options are inputs of every later call')
    rep.assumptions += ['np.argmax / np.argmin return the first extreme (numpy documentation)', 'algorithmic correctness of the scanning loops is covered only as conformance with the reference loops',
                        'neurodsp filter_signal / compute_filter_length are out of scope (signatures read from the installed source)']
    f = model.find('find_extrema')
    site = f'{f.path}:{f.node.lineno} find_extrema'
    n = 0
    keep = {}
    for fen, fe in (('peak', C('peak')), ('trough', C('trough')), ('None', NONE)):
        for pad in (T.TRUE, T.FALSE):
            for fkn, fk in FK.items():
                b = base(fe, pad, fk)
                impl, ctx = E.run(model, f.qual, dict(b), overrides=OV)
                spec, _ = E.spec('extrema', dict(b), overrides=OV, repo=model)
                rep.compare('FE-DEF', f'first_extrema={fen}:pad={pad[1]}:filter_kwargs={fkn}', site, impl, spec, ctx.unmodelled)
                keep[(fen, pad[1], fkn)] = (impl, ctx)
                n += 1
    rep.floor('find_extrema scenarios', n, 24)
    # targeted queries on the un-trimmed scenario (first_extrema=None), both pad settings
    for pad in (True, False):
        impl, ctx = keep[('None', pad, 'n_cycles')]
        impl = T.strip_nd(impl) if impl is not None else impl
        inst = f'pad={pad}'
        if impl is None or impl[0] != 'tuple' or len(impl[1]) != 2:
            rep.violation('PROVENANCE', inst, site, expected='a (peaks, troughs) pair', found=T.brief(impl, 200) if impl else 'no value is returned on this path (raises)')
            continue
        peaks, troughs = impl[1]
        raw_ok, pol_ok, why = True, True, []
        for comp, want_fn, lo_src, hi_src, name in ((peaks, 'argmax', RX, DX, 'peaks'), (troughs, 'argmin', DX, RX, 'troughs')):
            calls = [x for x in T.walk(comp) if x[0] == 'call' and x[1] in ('argmax', 'argmin')]
            if not calls or {c[1] for c in calls} != {want_fn}:
                pol_ok = False
                why.append(f'{name}: {sorted({c[1] for c in calls})}')
            for c in calls:
                op = c[2][0]
                root = op[1] if op[0] == 'slice' else op
                rootname = root if root == SIG else root[2][0] if root[0] == 'call' and root[1] == 'pad' and root[2] else None
                if rootname != SIG or any(x[0] == 'call' and x[1] == 'filter_signal' for x in T.walk(op)):
                    raw_ok = False
                    why.append(f'{name}: operand {T.brief(op, 80)}')
                if (root == SIG) != (not pad):
                    raw_ok = False
                    why.append(f'{name}: padded/unpadded mismatch {T.brief(root, 60)}')
                if op[0] == 'slice':
                    lo_atoms = {x for x in T.walk(T.anonymise_lv(op[2])) if x in (RX, DX)}
                    hi_atoms = {x for x in T.walk(T.anonymise_lv(op[3])) if x in (RX, DX)}
                    if lo_atoms != {lo_src} or hi_src not in hi_atoms:
                        pol_ok = False
                        why.append(f'{name}: window [{T.brief(op[2], 40)} : {T.brief(op[3], 60)}]')
        (rep.ok if raw_ok else lambda *a, **k: rep.violation(*a[:3], expected='slices of the raw (padded) signal parameter', found=k['found']))(
            'PROVENANCE', inst + ':operands', site, found='; '.join(why) if not raw_ok else 'arg-extrema over slices of the raw signal')
        (rep.ok if pol_ok else lambda *a, **k: rep.violation(*a[:3], expected='argmax over rise..next decay for peaks; argmin over decay..next rise for troughs', found=k['found']))(
            'POLARITY', inst, site, found='; '.join(why) if not pol_ok else 'argmax(rise -> decay) / argmin(decay -> rise)')
        # sibling symmetry
        sw = {RX: DX, DX: RX}

        def swap(x):
            if x in sw:
                return sw[x]
            if x[0] == 'call' and x[1] in ('argmax', 'argmin'):
                return ('call', 'argmin' if x[1] == 'argmax' else 'argmax') + x[2:]
            return None
        core_p, core_t = strip_tail(peaks), strip_tail(troughs)
        mirrored = T.subst(core_p, swap)
        # the closed-half-wave counts are not symmetric (they depend on which crossing comes last): compare the stored element definitions
        sp, st = stored_values(T.anonymise_lv(mirrored)), stored_values(T.anonymise_lv(core_t))
        if sp and sp == st:
            rep.ok('POLARITY', inst + ':sibling symmetry', site, found='trough loop == peak loop under rise<->decay, max<->min')
        else:
            rep.violation('POLARITY', inst + ':sibling symmetry', site, expected='trough search is the mirror image of the peak search', found=f'{T.brief(st[0], 200) if st else None} vs mirrored {T.brief(sp[0], 200) if sp else None}')
        # filter call and crossings
        fz = [e for e in ctx.trace if e['kind'] == 'pkgcall' and e['name'].endswith('find_flank_zerox')]
        flt = {e['bound'].get('sig') for e in fz}
        flanks = sorted(T.show(e['bound'].get('flank')) for e in fz)
        good = len(fz) == 2 and len(flt) == 1 and flanks == ["'decay'", "'rise'"]
        if good:
            ft = next(iter(flt))
            good = ft is not None and ft[0] == 'call' and ft[1] == 'filter_signal' and dict(ft[3]).get('remove_edges') == T.FALSE and len(ft[2]) >= 4 and \
                ft[2][1] == ('param', 'fs') and ft[2][2] == ('param', 'pass_type') and ft[2][3] == ('param', 'f_range') and \
                (ft[2][0] == SIG if not pad else (ft[2][0][0] == 'call' and ft[2][0][1] == 'pad' and ft[2][0][2][0] == SIG)) and \
                dict(ft[3]).get('n_cycles') == ('param', 'fk_n_cycles')
        if good:
            rep.ok('PROVENANCE', inst + ':crossings', site, found='rise / decay crossings of filter_signal(raw, fs, pass_type, f_range, remove_edges=False, **filter_kwargs)')
        else:
            rep.violation('PROVENANCE', inst + ':crossings', site, expected='find_flank_zerox(filter_signal(<raw or padded raw>, fs, pass_type, f_range, remove_edges=False, **filter_kwargs), rise|decay)',
                          found=[(T.brief(e['bound'].get('sig'), 120), T.show(e['bound'].get('flank'))) for e in fz])
        # pad agreement and boundary
        bnd = ('param', 'boundary')
        pads = {x[2][1] for x in T.walk(impl) if x[0] == 'call' and x[1] == 'pad' and len(x[2]) > 1}
        offs, okb, whyb = set(), True, []
        for comp, name in ((peaks, 'peaks'), (troughs, 'troughs')):
            masks = {x for x in T.walk(comp) if x[0] == 'band' and bnd in set(T.walk(x))}
            if len(masks) != 1:
                okb = False
                whyb.append(f'{name}: {len(masks)} boundary masks')
                continue
            conj = next(iter(masks))[1]
            if len(conj) != 2 or any(c[0] != 'cmp0' or c[1] != 'Gt' for c in conj):
                okb = False
                whyb.append(f'{name}: {T.brief(next(iter(masks)), 200)} (both comparisons must be strict)')
                continue
            d1, d2 = conj[0][2], conj[1][2]
            found_v = None
            for da, db in ((d1, d2), (d2, d1)):
                V = T.add(da, bnd)                      # da == V - boundary
                if db == T.lin(0, [(('len', SIG), 1), (bnd, -1), (V, -1)]) and ('len', SIG) not in set(T.walk(V)):
                    found_v = V
            if found_v is None:
                okb = False
                whyb.append(f'{name}: {T.brief(next(iter(masks)), 220)}')
                continue
            offs.add(T.sub(strip_tail(comp), found_v))
        if okb:
            rep.ok('BOUNDARY', inst, site, found='idx > boundary and idx < len(sig) - boundary (strict, original length)')
        else:
            rep.violation('BOUNDARY', inst, site, expected='(idx > boundary) & (idx < len(original sig) - boundary)', found='; '.join(whyb))
        if pad:
            ok = len(pads) == 1 and offs == pads
        else:
            ok = not pads and offs == {C(0)}
        if ok:
            rep.ok('PAD-AGREE', inst, site, found=f'offset {T.brief(next(iter(offs)), 80)}')
        else:
            rep.violation('PAD-AGREE', inst, site, expected='removed offset == np.pad width (0 without padding)', found=f'pad widths {[T.brief(p, 60) for p in pads]}, offsets {[T.brief(o, 60) for o in offs]}')
    # crossing rule
    g = model.find('find_flank_zerox')
    gsite = f'{g.path}:{g.node.lineno} find_flank_zerox'
    for fl in ('rise', 'decay'):
        for mn, mp in (('None', NONE), ('given', ('atom', 'level', 'num'))):
            impl, ctx = E.run(model, g.qual, {g.params[0]: ('param', 'x'), g.params[1]: C(fl), g.params[2]: mp})
            spec, _ = E.spec('crossings', {'x': ('param', 'x'), 'flank': C(fl), 'level': mp})
            rep.compare('CROSSING', f'{fl}:level={mn}', gsite, impl, spec, ctx.unmodelled)


def strip_tail(comp):
    """the array of arg-extrema before un-padding / boundary filtering / trimming"""
    arrs = [x for x in T.walk(comp) if (x[0] == 'arr' and x[1][0] == 'call' and x[1][1] == 'zeros') or
            (x[0] == 'map' and any(y[0] == 'call' and y[1] in ('argmax', 'argmin') for y in T.walk(x[2])))]
    return max(arrs, key=lambda a: len(repr(a))) if arrs else comp


def stored_values(arr):
    if arr and arr[0] == 'map':
        return [arr[2]]
    return [s[1] for s in arr[2]] if arr and arr[0] == 'arr' else []


def final_mask(comp):
    """comp == values[mask] with values == arg-extrema array - offset (first_extrema=None: no trimming)"""
    if comp[0] != 'idx':
        return None
    values, mask = comp[1], comp[2]
    off = C(0)
    if values[0] == 'lin':
        rest = [(t, c) for t, c in values[2] if t[0] != 'arr']
        if len(rest) == 1 and rest[0][1] == -1 and values[1] == 0:
            off = rest[0][0]
        elif rest or values[1] != 0:
            off = T.neg(T.lin(values[1], rest))
    return {'values': values, 'mask': mask, 'offset': off}


def _doc_defaults(rep, model):
    from . import common as _c
    _c.doc_defaults(rep, model, ['find_extrema', 'find_flank_zerox'])
