"""C09 - peak- and trough-centred analyses are mirror images."""
from .. import terms as T
from ..terms import C, NONE
from .. import engine as E
from . import c05
from . import common

SIG = ('param', 'sig')
NEG = T.neg(SIG)


def mirror_table(tab):
    """the statement's transformation: swap names, negate extremum voltages, 1 - symmetry fractions"""
    out = {}
    for col, v in tab[1]:
        if col in ('volt_peak', 'volt_trough'):
            v = T.neg(v)
        elif col in ('time_rdsym', 'time_ptsym'):
            v = T.sub(C(1), v)
        out[E.mu(col)] = v
    return out


def check(rep, model, tier):
    rep.rule('ARCH', 'trough centring is negate -> same pipeline -> rename: find_extrema receives -sig exactly in the trough scenario and sig in the peak scenario')
    rep.rule('MIRROR-SHAPE', 'compute_shape_features(sig, trough) has, column by column, the normal form of the mirror transformation (names swapped, extremum '
                             'voltages negated, symmetry fractions 1-x) applied to compute_shape_features(-sig, peak)')
    rep.rule('MIRROR-BURST', 'each burst feature evaluated on a trough-centred table T and sig equals the same feature evaluated on the peak-centred mirror '
                             'image of T and -sig (amp_fraction, amp/period consistency x 3 directions, monotonicity, burst_fraction)')
    rep.rule('LABEL-INDEP', 'the labelling functions read only burst-feature columns (no cyclepoint or centring-dependent column), so equal features give equal labels')
    rep.rule('ORIG-SIG', 'compute_features hands its own (un-negated) signal and the renamed table to the burst features')
    rep.rule('OPTIONS-STABLE', 'compute_features (closed over everything it calls) writes through none of its arguments: the two analyses of a mirror pair are given the same option '
                               'objects (nested filter options included), so an option removed or rewritten by the first analysis would make the second one a different analysis')
    common.args_intact(rep, model, ['compute_features'], rule='OPTIONS-STABLE', why='both analyses of the mirror pair receive the same option objects')
    rep.assumptions += ['filtering / analytic amplitude are odd / even in the signal (model: amp_by_time(-x)=amp_by_time(x), dual threshold mask(-x)=mask(x)); '
                        'bit-level identity of the two runs is not decided',
                        'find_extrema/find_zerox abstracted: the same arrays in both runs because both analyse -sig']
    fn = model.find('compute_shape_features')
    site = f'{fn.path}:{fn.node.lineno} compute_shape_features'
    base = {'find_extrema_kwargs': NONE, 'n_cycles': ('param', 'n_cycles')}
    A, ctxA = E.run(model, 'compute_shape_features', dict(base, sig=NEG, center_extrema=C('peak')), overrides=E.CYCLEPOINT_ABS)
    B, ctxB = E.run(model, 'compute_shape_features', dict(base, sig=SIG, center_extrema=C('trough')), overrides=E.CYCLEPOINT_ABS)
    P0, ctxP = E.run(model, 'compute_shape_features', dict(base, sig=SIG, center_extrema=C('peak')), overrides=E.CYCLEPOINT_ABS)
    for name, ctx, want in (('trough', ctxB, NEG), ('peak', ctxP, SIG)):
        evs = E.calls_to(ctx, 'find_extrema')
        got = [e['bound'].get('sig') for e in evs]
        if got == [want]:
            rep.ok('ARCH', f'{name}:find_extrema signal', site, found=T.show(want))
        else:
            rep.violation('ARCH', f'{name}:find_extrema signal', site, expected=T.show(want), found=[T.brief(g, 60) if g else None for g in got])
    n = 0
    if A is None or B is None or A[0] != 'table' or B[0] != 'table':
        rep.violation('MIRROR-SHAPE', 'tables', site, expected='both runs return a table', found=f'{T.brief(A, 120) if A else None} / {T.brief(B, 120) if B else None}')
    else:
        mA, dB = mirror_table(A), dict(B[1])
        if set(mA) != set(dB):
            rep.violation('MIRROR-SHAPE', 'columns', site, expected=sorted(mA), found=sorted(dB))
        for col in sorted(set(mA) & set(dB)):
            rep.compare('MIRROR-SHAPE', col, site, dB[col], mA[col], ctxB.unmodelled)
            n += 1
    # burst features: trough table T (atoms) vs its peak-centred mirror image
    Tt = E.abstract_table('S', E.SHAPE_COLS + list(E.SAMPLE_COLS['trough'].values()))
    Pm = E.table_of(mirror_table(Tt), Tt[2])       # mirror is an involution: peak image of T
    feats = [('compute_amp_fraction', {}, 'amp_fraction')]
    for d in c05.DIRECTIONS:
        feats.append(('compute_amp_consistency', {'direction': C(d)}, f'amp_consistency[{d}]'))
        feats.append(('compute_period_consistency', {'direction': C(d)}, f'period_consistency[{d}]'))
    for fname, extra, label in feats:
        f = model.find(fname)
        t, ctx = E.run(model, fname, dict(extra, **{f.params[0]: Tt}))
        p, _ = E.run(model, fname, dict(extra, **{f.params[0]: Pm}))
        rep.compare('MIRROR-BURST', label, f'{f.path}:{f.node.lineno} {fname}', t, p, ctx.unmodelled)
        n += 1
    f = model.find('compute_monotonicity')
    t, ctx = E.run(model, 'compute_monotonicity', {f.params[0]: Tt, f.params[1]: SIG})
    p, _ = E.run(model, 'compute_monotonicity', {f.params[0]: Pm, f.params[1]: NEG})
    p = rekey(p, Pm, Tt)
    rep.compare('MIRROR-BURST', 'monotonicity', f'{f.path}:{f.node.lineno} compute_monotonicity', t, p, ctx.unmodelled)
    f = model.find('compute_burst_fraction')
    bd = {k: ('param', k) for k in ('fs', 'f_range', 'amp_threshes', 'min_n_cycles', 'min_burst_duration')}
    bd['filter_kwargs'] = ('dict', ())
    t, ctx = E.run(model, 'compute_burst_fraction', dict(bd, **{f.params[0]: Tt, f.params[1]: SIG}))
    p, _ = E.run(model, 'compute_burst_fraction', dict(bd, **{f.params[0]: Pm, f.params[1]: NEG}))
    p = rekey(p, Pm, Tt)
    rep.compare('MIRROR-BURST', 'burst_fraction', f'{f.path}:{f.node.lineno} compute_burst_fraction', t, p, ctx.unmodelled)
    n += 2
    # labels
    for det, cols in (('detect_bursts_cycles', E.BURST_COLS['cycles']), ('detect_bursts_amp', E.BURST_COLS['amp'])):
        f = model.find(det)
        S = E.abstract_table('S', cols + E.SHAPE_COLS + list(E.SAMPLE_COLS['peak'].values()) + list(E.SAMPLE_COLS['trough'].values()))
        r, ctx = E.run(model, det, {f.params[0]: S})
        lab = dict(r[1]).get('is_burst') if r and r[0] == 'table' else None
        if lab is None:
            rep.violation('LABEL-INDEP', det, f'{f.path}:{f.node.lineno} {det}', expected='a table with an is_burst column', found=T.brief(r, 160) if r else 'no value returned')
            continue
        read = modelled_reads(lab, ctx.unmodelled)
        if read <= set(cols):
            rep.ok('LABEL-INDEP', det, f'{f.path}:{f.node.lineno} {det}', found=f'reads {sorted(read)}')
        else:
            rep.violation('LABEL-INDEP', det, f'{f.path}:{f.node.lineno} {det}', expected=f'reads only {cols}', found=sorted(read))
    # ORIG-SIG
    fn = model.find('compute_features')
    for method, sink in (('cycles', 'compute_monotonicity'), ('amp', 'compute_burst_fraction')):
        res, ctx = E.run(model, 'compute_features', {'burst_method': C(method), 'center_extrema': C('trough'), 'threshold_kwargs': ('dict', ()),
                                                    'burst_kwargs': NONE}, no_inline=E.HEAVY)
        evs = E.calls_to(ctx, sink)
        sk = model.find(sink)
        ok = len(evs) == 1 and evs[0]['bound'].get(sk.params[1]) == SIG and \
            evs[0]['bound'].get(sk.params[0], ('x', 'x'))[:2] == ('call', 'compute_shape_features')
        site2 = f'{fn.path}:{fn.node.lineno} compute_features[{method},trough]'
        if ok:
            rep.ok('ORIG-SIG', f'{method}:{sink}', site2, found='(renamed shape table, sig)')
        else:
            rep.violation('ORIG-SIG', f'{method}:{sink}', site2, expected='(compute_shape_features(...) result, the function\'s own sig)',
                          found=[(T.brief(e['bound'].get(sk.params[0]), 60), T.brief(e['bound'].get(sk.params[1]), 40)) for e in evs])
    # return_samples only selects columns at the very end: every feature / label computation sees the same arguments with and without sample columns
    rep.rule('RS-LATE', 'with center_extrema="trough", the calls that compute shape features, burst features and labels receive identical arguments for return_samples=True and '
                        'False (the option only drops sample_ columns from the finished table), so the renamed table the burst features read is the same in both cases')
    for method in ('cycles', 'amp'):
        seen = {}
        for rs in (T.TRUE, T.FALSE):
            res, ctx = E.run(model, 'compute_features', {'burst_method': C(method), 'center_extrema': C('trough'), 'threshold_kwargs': ('dict', ()),
                                                        'burst_kwargs': NONE, 'return_samples': rs}, no_inline=E.HEAVY)
            seen[rs[1]] = [(e['name'].rsplit('.', 1)[-1], tuple(sorted((k, v) for k, v in e['bound'].items()))) for e in ctx.trace
                           if e['kind'] == 'pkgcall' and not e.get('inlined') and e['name'].rsplit('.', 1)[-1] not in ('drop_samples_df',)]
        site2 = f'{fn.path}:{fn.node.lineno} compute_features[{method},trough]'
        if seen[True] == seen[False] and seen[True]:
            rep.ok('RS-LATE', method, site2, found=f'{len(seen[True])} delegated calls with identical arguments')
        else:
            diff = [(a[0], [k for (k, v), (k2, v2) in zip(a[1], b[1]) if v != v2] or 'different parameters') for a, b in zip(seen[True], seen[False]) if a != b]
            rep.violation('RS-LATE', method, site2, expected='the same delegated calls with the same arguments for return_samples=True and False',
                          found=f'{diff[:3]} ({len(seen[True])} vs {len(seen[False])} calls)')
    rep.floor('mirror comparisons', n, 19 + 9)


def rekey(t, frm, to):
    """loop keys mention the table they iterate over; both tables have the same rows"""
    return T.subst(t, lambda x: to if x == frm else None)


def modelled_reads(t, unmodelled):
    """columns read by a term outside unmodelled constructs (those are left to the definition rules of C06 / C07)"""
    um = {u.rsplit('.', 1)[-1] for u in unmodelled} | {'DataFrame.__getitem__', '__getitem__'}
    out, stack = set(), [t]
    while stack:
        x = stack.pop()
        if not isinstance(x, tuple):
            continue
        if x and x[0] == 'call' and (x[1] in um or x[1].rsplit('.', 1)[-1] in um):
            continue
        if x and x[0] == 'col':
            out.add(x[2])
        stack.extend(y for y in x if isinstance(y, tuple))
    return out
