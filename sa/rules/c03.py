"""C03 - flank midpoints sit where the flank crosses its half-height."""
from fractions import Fraction
from .. import terms as T
from ..terms import C, NONE
from .. import engine as E
from . import common

SIG = ('param', 'sig')


def sample_differences(fnode, sig_params):
    return common.sample_arith(fnode, sig_params)['diff']


def sample_diff(rep, model):
    """the midpoint search works on the recording as it is stored: raw counts of an unsigned integer type are a documented input of the kind 'integer-valued signal',
    and for them a difference of two samples wraps around whenever the second is larger"""
    import ast
    rep.rule('SAMPLE-DIFF', 'no function of the midpoint search (find_zerox and what it reaches) subtracts one raw sample value from another: the half-height level is formed '
                            'from a sum, samples meet the level only in comparisons. A difference last - first is negative on every decay and wraps around for unsigned integer '
                            'recordings (raw ADC counts), which moves the level outside the flank so that no crossing is found')
    n = 0
    for q in sorted(common.reachable(model, ['find_zerox'])):
        f = model.funcs[q]
        if not f.mod.endswith('cyclepoints.zerox'):
            continue
        n += 1
        sigs = [p for p in f.params if p == 'sig' or p.startswith('sig_')]
        hits = sample_differences(f.node, sigs)
        if hits:
            rep.violation('SAMPLE-DIFF', f.name, f'{f.path}:{hits[0][0]} {f.name}', expected='sums, scalings and comparisons of sample values only',
                          found='; '.join(t for _, t in hits[:3]) + ': wraps around when the signal is held in an unsigned integer type')
        else:
            rep.ok('SAMPLE-DIFF', f.name, f'{f.path}:{f.node.lineno} {f.name}', found='no difference of two sample values')
    ex = ast.parse('def f(sig, a, b):\n    seg = sig[a:b + 1]\n    mid = seg[0] + (seg[-1] - seg[0]) / 2.\n    k = np.argmax(seg) - a\n    return mid, k\n').body[0]
    got = sample_differences(ex, ['sig'])
    if len(got) == 1 and 'seg[-1] - seg[0]' in got[0][1]:
        rep.ok('SAMPLE-DIFF', 'embedded example', 'sa/rules/c03.py', found='fires on the sample difference, silent on the index difference', nontrivial=False)
    else:
        rep.unresolved('SAMPLE-DIFF', 'embedded example', 'sa/rules/c03.py', f'the taint query no longer behaves as expected on the embedded example: {got}')
    rep.floor('midpoint-search functions scanned for sample differences', n, 2)


def index_dtype(rep, model):
    """the midpoint arrays index the signal (C17, the row assembly of C01): they must be integer arrays for every number of flanks, zero included"""
    import ast
    rep.rule('INDEX-DTYPE', 'no function of the midpoint search builds a returned sample-index array with np.array / np.asarray of a run-time list without an integer dtype: '
                            'for zero flanks (one peak and one trough) such an array is empty and float64, and indexing the signal with it raises IndexError; the reference '
                            'allocates np.zeros(n, dtype=int)')

    def hits(fnode):
        out = []
        for n in ast.walk(fnode):
            if isinstance(n, ast.Call) and isinstance(n.func, ast.Attribute) and n.func.attr in ('array', 'asarray') and isinstance(n.func.value, ast.Name) \
                    and n.func.value.id in ('np', 'numpy') and n.args and not any(k.arg == 'dtype' for k in n.keywords) and len(n.args) < 2:
                a = n.args[0]
                literal = isinstance(a, (ast.List, ast.Tuple)) and a.elts and all(isinstance(e, ast.Constant) for e in a.elts)
                if not literal and isinstance(a, (ast.List, ast.Tuple, ast.ListComp, ast.GeneratorExp, ast.Name)):
                    out.append((n.lineno, ast.unparse(n)))
        return out
    n = 0
    for q in sorted(common.reachable(model, ['find_zerox'])):
        f = model.funcs[q]
        if not f.mod.endswith('cyclepoints.zerox') or f.name == 'find_flank_zerox':
            continue            # find_flank_zerox returns positions from flatnonzero (integer by construction) or a one-element list
        n += 1
        hs = [(ln, t) for ln, t in hits(f.node) if _returned(f.node, ln)]
        if hs:
            rep.violation('INDEX-DTYPE', f.name, f'{f.path}:{hs[0][0]} {f.name}', expected='an integer array for every flank count (np.zeros(n, dtype=int) / dtype=int / astype(int))',
                          found=f'{hs[0][1]}: float64 when the list is empty, and the caller indexes the signal with it')
        else:
            rep.ok('INDEX-DTYPE', f.name, f'{f.path}:{f.node.lineno} {f.name}', found='no untyped np.array of a run-time list is returned')
    ex = ast.parse('def f(sig, n):\n    out = []\n    for i in range(n):\n        out.append(i)\n    w = np.array([1, 2])\n    z = np.array(out, dtype=int)\n    return np.array(out)\n').body[0]
    got = [(ln, t) for ln, t in hits(ex) if _returned(ex, ln)]
    if len(got) == 1 and got[0][1] == 'np.array(out)':
        rep.ok('INDEX-DTYPE', 'embedded example', 'sa/rules/c03.py', found='fires on the untyped array of an appended list, silent on literals and dtype=int', nontrivial=False)
    else:
        rep.unresolved('INDEX-DTYPE', 'embedded example', 'sa/rules/c03.py', f'the query no longer behaves as expected on the embedded example: {got}')
    rep.floor('midpoint-search functions scanned for untyped index arrays', n, 1)


def _returned(fnode, lineno):
    """the call on this line is (part of) a returned value, or bound to a name that is returned"""
    import ast
    names = set()
    for st in ast.walk(fnode):
        if isinstance(st, ast.Return) and st.value is not None:
            if st.lineno <= lineno <= (st.end_lineno or st.lineno):
                return True
            names |= {x.id for x in ast.walk(st.value) if isinstance(x, ast.Name)}
    for st in ast.walk(fnode):
        if isinstance(st, ast.Assign) and st.lineno <= lineno <= (st.end_lineno or st.lineno):
            if any(isinstance(t, ast.Name) and t.id in names for t in st.targets):
                return True
    return False


def check(rep, model, tier):
    rep.rule('MID-DEF', '_find_flank_midpoints == reference (sa/refspec/cyclepoints.py) for rise / decay: inclusive window [start, end], half-height level, all-zero and '
                        'inverted-flank fallbacks to the temporal centre, floor(median(crossings)) otherwise, window start added back')
    rep.rule('ZEROX-DEF', 'find_zerox == reference: rises searched trough -> peak, decays peak -> trough; counts and index bias from which extremum comes first')
    rep.rule('WINDOW', 'the searched window is sig[start_k : end_(k+bias) + 1] (both extrema included) and every stored midpoint is start_k + <offset computed from that window only>')
    rep.rule('LEVEL', 'the level handed to the crossing finder is (first + last sample of the window) / 2, with the window and the flank of the same search')
    rep.rule('INVERT-TABLE', 'the inverted-flank test is first > last for a rise and first < last for a decay')
    rep.rule('CROSSING', 'the crossing rule of find_flank_zerox (shared with C02)')
    rep.rule('ARGS-INTACT', 'find_zerox (closed over its helpers) writes through none of its arguments: the midpoints are defined relative to the caller\'s signal and extrema arrays, '
                            'which the caller goes on to use for the same cycles')
    common.args_intact(rep, model, ['find_zerox'], why='signal and extrema are shared with the caller')
    sample_diff(rep, model)
    index_dtype(rep, model)
    rep.assumptions += ['np.median / np.sum / np.abs as documented; that the stored sample is the median crossing for a concrete signal follows from numpy semantics (not decided)']
    f = model.find('_find_flank_midpoints')
    site = f'{f.path}:{f.node.lineno} _find_flank_midpoints'
    st, en, bias, n = ('param', 'start'), ('param', 'end'), ('param', 'bias'), ('param', 'n_flanks')
    helper_ok = len(f.params) == 6
    if not helper_ok:
        # the private helper no longer has the reference's six parameters: its stand-alone definition cannot be set against the reference;
        # what find_zerox computes through it is still compared as a whole (ZEROX-DEF, with the helper inlined)
        for r_ in ('MID-DEF', 'WINDOW', 'LEVEL', 'INVERT-TABLE'):
            rep.ok(r_, 'helper signature', site, found=f'_find_flank_midpoints{tuple(f.params)} differs from the reference helper: not decided at helper level (see ZEROX-DEF)',
                   nontrivial=False)
    for fl in (('rise', 'decay') if helper_ok else ()):
        b = {f.params[0]: SIG, f.params[1]: C(fl), f.params[2]: n, f.params[3]: st, f.params[4]: en, f.params[5]: bias}
        impl, ctx = E.run(model, f.qual, dict(b), no_inline=('find_flank_zerox',))
        spec, _ = E.spec('midpoints', {'sig': SIG, 'flank': C(fl), 'n_flanks': n, 'start': st, 'end': en, 'bias': bias}, repo=model)
        rep.compare('MID-DEF', fl, site, impl, spec, ctx.unmodelled)
        # targeted queries
        lv = ('lv', ('range', C(0), n, C(1)), 0)
        arrs = [x for x in T.walk(impl) if x[0] == 'arr'] if impl else []
        if impl is not None and impl[0] == 'map' and impl[1] == lv[1]:
            arr = ('arr', T.call('zeros', (n,)), ((lv, impl[2], T.TRUE),))        # one element definition per flank
        elif arrs:
            arr = max(arrs, key=lambda a: len(a[2]))
        else:
            rep.violation('WINDOW', fl, site, expected='one midpoint per flank, defined element-wise', found=T.brief(impl, 160) if impl else 'no value returned')
            continue
        k_end = T.add(lv, T.add(T.neg(bias), C(1))) if fl == 'rise' else T.add(lv, bias)
        window = T.slice_(SIG, T.index(st, lv), T.add(T.index(en, k_end), C(1)))
        okw, why = True, []
        for idx_, val, g in arr[2]:
            if idx_ != lv:
                okw = False
                why.append(f'store at {T.brief(idx_, 60)}')
                continue
            for leaf in leaves(val):
                rest = T.sub(leaf, T.index(st, lv))
                srcs = {x for x in T.walk(rest) if x[0] in ('slice', 'idx') and SIG in set(T.walk(x))}
                bad = [x for x in srcs if window not in set(T.walk(x)) and x != window]
                if T.index(st, lv) in set(T.walk(rest)) and not any(window in set(T.walk(x)) or x == window for x in T.walk(rest) if x[0] == 'slice'):
                    pass
                if bad:
                    okw = False
                    why.append(f'value reads {T.brief(bad[0], 80)} outside the window')
        wins = {x for x in T.walk(arr) if x[0] == 'slice' and x[1] == SIG}
        if wins != {window}:
            okw = False
            why.append(f'windows {[T.brief(w, 100) for w in wins]} (expected {T.brief(window, 100)})')
        if okw:
            rep.ok('WINDOW', fl, site, found=T.brief(window, 120))
        else:
            rep.violation('WINDOW', fl, site, expected=f'one inclusive window {T.brief(window, 120)}; midpoint = start + offset from it', found='; '.join(why))
        # level and crossing call
        fz = [e for e in ctx.trace if e['kind'] == 'pkgcall' and e['name'].endswith('find_flank_zerox')]
        level = T.mul(T.add(T.index(window, C(0)), T.index(window, C(-1))), C(Fraction(1, 2)))
        ffz = model.find('find_flank_zerox')
        if len(fz) == 1 and fz[0]['bound'].get(ffz.params[0]) == window and fz[0]['bound'].get(ffz.params[1]) == C(fl) and fz[0]['bound'].get(ffz.params[2]) == level:
            rep.ok('LEVEL', fl, site, found='(window[0] + window[-1]) / 2 on the same window and flank')
        else:
            rep.violation('LEVEL', fl, site, expected=f'find_flank_zerox(window, {fl!r}, (window[0] + window[-1]) / 2)',
                          found=[{k: T.brief(v, 90) for k, v in e['bound'].items()} for e in fz] or 'no call')
        # inverted-flank comparator: guard of the crossing call must contain not(first OP last)
        first, last = T.index(window, C(0)), T.index(window, C(-1))
        want = T.cmp_('Gt', first, last) if fl == 'rise' else T.cmp_('Lt', first, last)
        guards = established(fz[0]) if fz else set()
        if T.not_(want) in guards or ('not', want) in guards:
            rep.ok('INVERT-TABLE', fl, site, found=T.show(want) + ' -> temporal centre')
        else:
            rep.violation('INVERT-TABLE', fl, site, expected=f'fallback exactly when {T.show(want)}', found=T.brief(fz[0]['guard'], 200) if fz else 'no crossing call')
    g = model.find('find_zerox')
    gsite = f'{g.path}:{g.node.lineno} find_zerox'
    b = {g.params[0]: SIG, g.params[1]: ('param', 'peaks'), g.params[2]: ('param', 'troughs')}
    impl, ctx = E.run(model, g.qual, dict(b), no_inline=('find_flank_zerox',))
    spec, _ = E.spec('zerox', {'sig': SIG, 'peaks': ('param', 'peaks'), 'troughs': ('param', 'troughs')}, repo=model)
    rep.compare('ZEROX-DEF', 'find_zerox', gsite, impl, spec, ctx.unmodelled)
    from . import c02
    h = model.find('find_flank_zerox')
    for fl in ('rise', 'decay'):
        for mn, mp in (('None', NONE), ('given', ('atom', 'level', 'num'))):
            impl, ctx = E.run(model, h.qual, {h.params[0]: ('param', 'x'), h.params[1]: C(fl), h.params[2]: mp})
            spec, _ = E.spec('crossings', {'x': ('param', 'x'), 'flank': C(fl), 'level': mp})
            rep.compare('CROSSING', f'{fl}:level={mn}', f'{h.path}:{h.node.lineno} find_flank_zerox', impl, spec, ctx.unmodelled)
    rep.floor('rule instances', len(rep.instances), 12)


def established(ev):
    """conditions known to hold when the event happens: its branch guard and the guards passed by early returns, with not(a or b) split"""
    out = set()
    work = [ev['guard']] + list(ev.get('perm', ()))
    while work:
        c = work.pop()
        out.add(c)
        if c[0] == 'and':
            work.extend(c[1])
        elif c[0] == 'not' and c[1][0] == 'or':
            work.extend(T.not_(x) for x in c[1][1])
    return out


def leaves(t):
    if t[0] == 'gamma':
        return leaves(t[2]) + leaves(t[3])
    return [t]
