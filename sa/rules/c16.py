"""C16 - edge recomputation touches only burst edges and only grows bursts."""
from .. import terms as T
from ..terms import C
from .. import engine as E
from .. import effects as X
from . import c05

THR = ['amp_fraction_threshold', 'amp_consistency_threshold', 'period_consistency_threshold', 'monotonicity_threshold', 'min_n_cycles']
NI = ('recompute_edge', 'detect_bursts_cycles', 'compute_amp_consistency', 'compute_period_consistency')


def check(rep, model, tier):
    _doc_defaults(rep, model)
    rep.rule('EDGES-DEF', 'recompute_edges == reference (sa/refspec/edges.py): copy of the table; k-th transition of is_burst: even -> cycle before the burst '
                          'recomputed looking "next", odd -> cycle after (transition+1) looking "last"; then detect_bursts_cycles(edited table, **threshold_kwargs) is returned')
    rep.rule('EDGE-DEF', 'recompute_edge(table, c, direction) changes exactly the cells (c, amp_consistency) and (c, period_consistency), to element 1 of the '
                         'directional consistency of rows [c-1, c+2) clipped to the table')
    rep.rule('ONE-SIDED', 'the directional (next / last) consistency values used at the edges equal their documented definitions for both centrings (shared with C05)')
    rep.rule('COPY-FIRST', 'recompute_edges has no write through its table or threshold arguments (closed effect summary)')
    rep.rule('EFF-LOST', 'no store in the edge code goes through a copy-on-write temporary (a chained store never reaches the table)')
    rep.assumptions += ['"bursts only grow" is a value-level consequence (one-sided values >= two-sided ones) and is not decided',
                        'DataFrame.iloc[r, c] = v is a landing store; DataFrame.copy() is a deep copy of the data']
    fn = model.find('recompute_edges')
    site = f'{fn.path}:{fn.node.lineno} recompute_edges'
    n = 0
    for centre in ('peak', 'trough'):
        S = E.abstract_table('S', E.BURST_COLS['cycles'] + ['is_burst'] + E.SHAPE_COLS + list(E.SAMPLE_COLS[centre].values()))
        tk = ('dict', tuple(sorted((k, ('param', 'T_' + k)) for k in THR)))
        impl, ctx = E.run(model, 'recompute_edges', {fn.params[0]: S, fn.params[1]: tk}, no_inline=NI)
        spec, _ = E.spec('edges', {'S': S, 'threshold_kwargs': tk}, repo=model)
        rep.compare('EDGES-DEF', centre, site, impl, spec, ctx.unmodelled)
        n += 1
        f1 = model.find('recompute_edge')
        for d in ('next', 'last', 'both'):
            impl, ctx = E.run(model, 'recompute_edge', {f1.params[0]: S, f1.params[1]: ('param', 'c'), f1.params[2]: C(d)}, no_inline=NI)
            spec, _ = E.spec('edge', {'S': S, 'c': ('param', 'c'), 'direction': C(d)}, repo=model)
            site1 = f'{f1.path}:{f1.node.lineno} recompute_edge'
            if impl is None or impl[0] != 'table':
                rep.violation('EDGE-DEF', f'{centre}:{d}', site1, expected='the edited table is returned', found=T.brief(impl) if impl else None)
                continue
            rep.compare('EDGE-DEF', f'{centre}:{d}', site1, impl, spec, ctx.unmodelled)
            changed = sorted(k for k, v in impl[1] if dict(S[1]).get(k) != v)
            if changed == ['amp_consistency', 'period_consistency']:
                rep.ok('EDGE-DEF', f'{centre}:{d}:write-set', site1, found=changed)
            else:
                rep.violation('EDGE-DEF', f'{centre}:{d}:write-set', site1, expected=['amp_consistency', 'period_consistency'], found=changed)
            n += 2
    # invalid direction is rejected
    f1 = model.find('recompute_edge')
    _, ctx = E.run(model, 'recompute_edge', {f1.params[2]: C('sideways')}, no_inline=NI)
    if any(r[0] == 'ValueError' and r[1] == T.TRUE for r in ctx.raises):
        rep.ok('EDGE-DEF', 'invalid direction rejected', f'{f1.path}:{f1.node.lineno} recompute_edge', found='ValueError')
    else:
        rep.violation('EDGE-DEF', 'invalid direction rejected', f'{f1.path}:{f1.node.lineno} recompute_edge', expected='ValueError', found='no unconditional raise')
    # one-sided definitions
    before = len(rep.instances)
    c05.compare_features(rep, model)
    for i in rep.instances[before:]:
        i['rule'] = 'ONE-SIDED' if i['rule'] in ('AMP-CONSIST', 'PERIOD-CONSIST') else i['rule']
    rep.instances[before:] = [i for i in rep.instances[before:] if i['rule'] == 'ONE-SIDED']
    # effects
    ro = X.pandas_major() >= 3
    summ, det, _ = X.summarise(model, ro_armed=ro)
    s = summ[fn.qual]
    if s['mut']:
        a = det[fn.qual]
        hits = sorted((ln, c, via) for (w, ln, c, via) in a.mut if w[0] == 'P')
        rep.violation('COPY-FIRST', 'recompute_edges', f'{fn.path}:{hits[0][0]} recompute_edges', expected='no write through df_features / threshold_kwargs',
                      found='; '.join(f'{c}' + (f' [via {v}]' if v else '') for _, c, v in hits[:3]))
    else:
        rep.ok('COPY-FIRST', 'recompute_edges', site, found='closed summary has no parameter write')
    for name in ('recompute_edges', 'recompute_edge'):
        f = model.find(name)
        a = det[f.qual]
        if a.lost:
            for ln, c in a.lost:
                rep.violation('EFF-LOST', f'{name}:{c}', f'{f.path}:{ln} {name}', expected='a landing store (.loc/.iloc or a bound object)',
                              found=f'{c} updates a copy-on-write temporary')
        else:
            rep.ok('EFF-LOST', name, f'{f.path}:{f.node.lineno} {name}', found='no chained store')
        for ln, c, via in a.rowrite:
            rep.violation('EFF-LOST', f'{name}:ro:{c}', f'{f.path}:{ln} {name}', expected='no write to a read-only view', found=f'{c} [via {via}]')
    from . import common
    rep.rule('EFF-ROVIEW', 'no write into a read-only array view of a pandas object on the recompute path')
    common.roview(rep, model, ['recompute_edges', 'recompute_edge', 'detect_bursts_cycles'])
    rep.floor('edge definitions compared', n, 14)
    obj_front_end(rep, model)
    centre_known(rep, model)


def obj_front_end(rep, model):
    """the object front end applies the same rule to the fitted table with thresholds lowered by r -- by r on every call, not cumulatively"""
    from . import c14, common
    rep.rule('OBJ-RECOMPUTE', 'Bycycle.recompute_edges(r) stores recompute_edges(fitted table, thresholds - r) where reduce_thresholds builds a new dictionary from the stored '
                              'thresholds; neither method (nor BycycleGroup.recompute_edges) writes to the stored thresholds, so a repeated call or the next group member is '
                              'lowered by r again, not by 2r (shared with C14 REDUCE / RECOMPUTE / EFF-SELF)')
    before = len(rep.instances)
    c14.reduce_and_recompute(rep, model)
    c14.group_recompute(rep, model)            # the group front end: each member with its own thresholds lowered by r
    rep.rules.pop('GROUP-RECOMPUTE', None)
    for i in rep.instances[before:]:
        i['rule'] = 'OBJ-RECOMPUTE'
        if i.get('key'):
            i['key'] = 'OBJ-RECOMPUTE@' + i['instance']
    summ, det, rounds, ro = common.effects(model)
    for cls, name, own in ((c14.BY, 'recompute_edges', {'df_features'}), (c14.GRP, 'recompute_edges', {'df_features', 'models'}), (c14.BASE, 'reduce_thresholds', set())):
        q = f'{cls}.{name}'
        f = model.funcs.get(q)
        if f is None:
            rep.unresolved('OBJ-RECOMPUTE', q, '-', 'method not found')
            continue
        short = cls.rsplit('.', 1)[1]
        bad = sorted(x for x in summ[q]['selfmut'] if x not in own)
        assigned = sorted(w[1] for (w, *_r) in det[q].mut if w[0] == 'SelfAssign' and w[1] not in own)
        site = f'{f.path}:{f.node.lineno} {short}.{name}'
        if bad or assigned:
            hits = sorted((ln, c, via) for (w, ln, c, via) in det[q].mut if w[0] in ('Self', 'SelfAssign') and w[1] in bad + assigned)
            rep.violation('OBJ-RECOMPUTE', f'{short}.{name}:settings stable', site, expected=f'writes only its results {sorted(own)}',
                          found=f'writes self.{bad + assigned}: ' + '; '.join(c for _, c, _v in hits[:3]))
        else:
            rep.ok('OBJ-RECOMPUTE', f'{short}.{name}:settings stable', site, found='stored thresholds / options are not written')


def _doc_defaults(rep, model):
    from . import common as _c
    _c.doc_defaults(rep, model, ['recompute_edges'])


def centre_known(rep, model):
    """the edge values are one-sided *for the table's centring* also when the table carries no sample_ columns (return_samples=False)"""
    rep.rule('CENTRE-KNOWN', 'on a cycle table without sample_ columns (compute_features(..., return_samples=False), Bycycle(return_samples=False)) the directional amplitude '
                             'consistency used by recompute_edge still pairs the flanks of the table\'s own centring: for a peak-centred table the rise of a cycle follows '
                             'the previous decay, for a trough-centred one the decay follows the previous rise')
    fn = model.find('compute_amp_consistency')
    site = f'{fn.path}:{fn.node.lineno} compute_amp_consistency (reached from recompute_edge)'
    for centre in ('peak', 'trough'):
        S = E.abstract_table('S', E.BURST_COLS['cycles'] + ['is_burst'] + E.SHAPE_COLS)      # what drop_samples_df leaves
        for d in ('next', 'last'):
            impl, ctx = E.run(model, fn.qual, {fn.params[0]: S, 'direction': C(d)})
            spec, _ = E.spec('amp_consistency', {'S': S, 'direction': C(d), 'centre': C(centre)})
            inst = f'{centre}-centred table without sample columns:{d}'
            if T.strip_nd(impl) == T.strip_nd(spec):
                rep.ok('CENTRE-KNOWN', inst, site, found='flanks paired for this centring')
            else:
                rep.violation('CENTRE-KNOWN', inst, site, expected=f'the {centre}-centred pairing (sa/refspec/burst.py amp_consistency)',
                              found='the pairing of the other centring: the branch is chosen by the presence of a sample_peak column, which such a table does not have',
                              key=f'CENTRE-KNOWN@{centre}:{d}')
