"""C17 - interpolated phase is anchored at cyclepoints and monotone between them (structural clauses)."""
import ast
from fractions import Fraction
from .. import terms as T
from ..terms import C, NONE
from .. import engine as E

A = {k: ('atom', k, 'intarr') for k in ('peaks', 'troughs', 'rises', 'decays')}
PI = ('atom', 'pi', 'num')


def check(rep, model, tier):
    rep.rule('PHASE-DEF', 'extrema_interpolated_phase == reference (sa/refspec/phase.py) for rises / decays given or omitted: anchors, interpolation wiring, merge and span mask')
    rep.rule('ANCHORS', 'anchor table and overwrite order: both branch arrays receive rises -> -pi/2, decays -> +pi/2 first, then peaks -> 0 and troughs -> +pi (one branch) / -pi (other branch)')
    rep.rule('MERGE', '_merge_phases == reference: the +pi branch is taken exactly where the -pi branch decreases; both ends are masked from the first / after the last '
                      'non-constant step, slicing from the front of the array')
    rep.rule('IDX-WRAP', 'no slice bound in the phase code is an affine term with a negative coefficient on a run-time value (python negative-index wrap-around)')
    rep.assumptions += ['range, monotonicity between anchors and finiteness inside the span are value-level consequences of np.interp on the anchor table (not decided)',
                        'np.interp is constant outside the first / last anchor, so the first and last non-zero step of the merged array mark the span']
    f = model.find('extrema_interpolated_phase')
    site = f'{f.path}:{f.node.lineno} extrema_interpolated_phase'
    for rn, r in (('None', NONE), ('given', A['rises'])):
        for dn, d in (('None', NONE), ('given', A['decays'])):
            bound = {'sig': ('param', 'sig'), 'peaks': A['peaks'], 'troughs': A['troughs'], 'rises': r, 'decays': d}
            impl, ctx = E.run(model, f.qual, dict(bound))
            spec, _ = E.spec('phase', dict(bound))
            rep.compare('PHASE-DEF', f'rises={rn}:decays={dn}', site, impl, spec, ctx.unmodelled)
    # anchor table, read off the arrays handed to np.interp in the full scenario
    bound = {'sig': ('param', 'sig'), 'peaks': A['peaks'], 'troughs': A['troughs'], 'rises': A['rises'], 'decays': A['decays']}
    ctx = __import__('sa.symeval', fromlist=['Ctx']).Ctx(model, no_inline=('_merge_phases',))
    E.run(model, f.qual, dict(bound), ctx=ctx)
    mp = [e for e in ctx.trace if e['kind'] == 'pkgcall' and e['name'].endswith('_merge_phases')]
    interps = [{'args': x[2]} for e in mp for a in e['bound'].values() for x in [a] if x[0] == 'call' and x[1] == 'interp']
    half = T.mul(PI, C(Fraction(1, 2)))
    want_common = [(A['rises'], T.neg(half)), (A['decays'], half), (A['peaks'], C(0))]
    found = []
    for e in interps:
        vals = e['args'][2] if len(e['args']) > 2 else None
        if vals is not None and vals[0] == 'idx':
            vals = vals[1]               # the anchored array itself, not the selector applied to it (which may be computed from the other branch's array)
        arrs = [x for x in T.walk(vals) if x[0] == 'arr'] if vals is not None else []
        if arrs:
            found.append([(s[0], s[1]) for s in max(arrs, key=lambda a: len(a[2]))[2]])
    want = sorted([want_common + [(A['troughs'], PI)], want_common + [(A['troughs'], T.neg(PI))]], key=repr)
    if sorted(found, key=repr) == want:
        rep.ok('ANCHORS', 'both branches', site, found='midpoints (-pi/2, +pi/2) stored first, then peaks 0 and troughs +pi / -pi')
    else:
        rep.violation('ANCHORS', 'both branches', site, expected=[[(T.show(k), T.show(v)) for k, v in b] for b in want],
                      found=[[(T.show(k), T.show(v)) for k, v in b] for b in found] or 'no anchor arrays reach np.interp')
    g = model.find('_merge_phases')
    gsite = f'{g.path}:{g.node.lineno} _merge_phases'
    # the two branch series are interpolated on the same time axis: one length
    n_samp = ('atom', 'n_samples', 'int')
    UP, DN = ('shaped', 'up', (n_samp,)), ('shaped', 'dn', (n_samp,))
    impl, ctx = E.run(model, g.qual, {g.params[0]: UP, g.params[1]: DN})
    spec, _ = E.spec('merge', {'up': UP, 'dn': DN})
    rep.compare('MERGE', '_merge_phases', gsite, impl, spec, ctx.unmodelled)
    idx_wrap(rep, model, [f, g])
    rep.floor('rule instances', len(rep.instances), 7)


def idx_wrap(rep, model, funcs):
    """syntactic-dataflow lint: slice bounds of the form  -x + c  /  -x  with x a run-time variable"""
    n = 0
    for fn in funcs:
        for node in ast.walk(fn.node):
            if isinstance(node, ast.Slice):
                for b in (node.lower, node.upper):
                    if b is None:
                        continue
                    n += 1
                    neg = [x for x in ast.walk(b) if isinstance(x, ast.UnaryOp) and isinstance(x.op, ast.USub) and not isinstance(x.operand, ast.Constant)]
                    sub = [x for x in ast.walk(b) if isinstance(x, ast.BinOp) and isinstance(x.op, ast.Sub) and isinstance(x.left, ast.Constant)
                           and not isinstance(x.right, ast.Constant)]
                    if neg or sub:
                        rep.violation('IDX-WRAP', f'{fn.name}:{ast.unparse(b)}', f'{fn.path}:{node.lineno} {fn.name}',
                                      expected='end masks expressed from the front (len(x) - k) or from the supplied cyclepoints',
                                      found=f'slice bound {ast.unparse(b)} becomes non-negative for small values and wraps around')
    # embedded positive example (zero-instance rule)
    ex = ast.parse('def f(p, k):\n    p[-k + 1:] = 0\n').body[0]
    hit = any(isinstance(x, ast.UnaryOp) and isinstance(x.op, ast.USub) and not isinstance(x.operand, ast.Constant)
              for s in ast.walk(ex) if isinstance(s, ast.Slice) for b in (s.lower, s.upper) if b is not None for x in ast.walk(b))
    if hit:
        rep.ok('IDX-WRAP', 'embedded positive example fires', 'sa/rules/c17.py', found='p[-k + 1:] recognised', nontrivial=False)
    else:
        rep.unresolved('IDX-WRAP', 'embedded positive example', 'sa/rules/c17.py', 'the lint no longer recognises the wrap-around idiom')
    rep.ok('IDX-WRAP', 'phase code', '-', found=f'{n} slice bounds inspected')
