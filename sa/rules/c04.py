"""C04 - shape features equal their documented definitions (definition-table agreement)."""
from .. import terms as T
from ..terms import C, NONE
from .. import engine as E


def shape_tables(model):
    """symbolic result of compute_shape_features per centring, with find_extrema / find_zerox as atoms"""
    out = {}
    for centre in ('peak', 'trough'):
        res, ctx = E.run(model, 'compute_shape_features',
                         {'center_extrema': C(centre), 'find_extrema_kwargs': NONE, 'n_cycles': ('param', 'n_cycles')},
                         overrides=E.CYCLEPOINT_ABS)
        out[centre] = (res, ctx)
    return out


def check(rep, model, tier):
    _doc_defaults(rep, model)
    rep.rule('DEF', 'every shape column of compute_shape_features, per centring, has the same normal form as the documented '
                    'definition (sa/refspec/shape.py) evaluated on the returned sample columns and the original signal')
    rep.rule('COLSET', 'the returned table has exactly the documented shape columns plus the six sample columns of its centring')
    rep.assumptions += ['find_extrema/find_zerox are abstraction points (arrays P, TR, R, D with P0<T0<P1..; decided by C01-C03)',
                        'amp_by_time(-x) == amp_by_time(x) (magnitude of the analytic signal; exact under IEEE negation)',
                        'pandas element-wise arithmetic on columns of one table; Series.values/to_numpy value-preserving']
    fn = model.find('compute_shape_features')
    n_inst = 0
    for centre, (res, ctx) in shape_tables(model).items():
        site = f'{fn.path}:{fn.node.lineno} compute_shape_features[center_extrema={centre}]'
        if res is None or res[0] != 'table':
            rep.violation('COLSET', f'{centre}:table', site, expected='a table with the documented shape and sample columns', found=T.brief(res, 200) if res else 'no value is returned on this path (raises)')
            continue
        cols = dict(res[1])
        want_samples = set(E.SAMPLE_COLS[centre].values())
        have_samples = {c for c in cols if c.startswith('sample_')}
        if have_samples != want_samples:
            rep.violation('COLSET', f'{centre}:samples', site, expected=sorted(want_samples), found=sorted(have_samples))
            continue
        have_shape = set(cols) - have_samples
        if have_shape != set(E.SHAPE_COLS):
            rep.violation('COLSET', f'{centre}:shape', site, expected=sorted(E.SHAPE_COLS), found=sorted(have_shape))
        else:
            rep.ok('COLSET', centre, site, found=f'{len(cols)} columns')
        S = E.table_of({c: cols[c] for c in want_samples}, res[2])
        spec, sctx = E.spec('shape_features', {'S': S, 'x': ('param', 'sig'), 'fs': ('param', 'fs'), 'f_range': ('param', 'f_range'),
                                               'n_cycles': ('param', 'n_cycles'), 'centre': C(centre)})
        sd = dict(spec[1])
        for col in E.SHAPE_COLS:
            if col not in cols:
                continue
            rep.compare('DEF', f'{centre}:{col}', site, cols[col], sd[col], ctx.unmodelled)
            n_inst += 1
    standalone(rep, model)
    rename_def(rep, model)
    wiring(rep, model)
    rep.floor('shape definitions compared', n_inst, 26)


def wiring(rep, model):
    """the rows the user receives are the ones DEF is about: the pipeline asks for the documented band-amplitude filter, and the table utilities leave a returned table alone"""
    from . import common
    rep.rule('BAND-WIRING', 'compute_features computes the shape table with the documented band-amplitude filter: the n_cycles of compute_shape_features is left at its documented '
                            'default (3) whatever segmentation / burst options are given, and sig / fs / f_range / center_extrema / find_extrema_kwargs are passed through unchanged')
    rep.rule('TABLE-INTACT', 'limit_df / drop_samples_df / get_extrema_df / epoch_df (applied to a returned table by the plots and by the user) write through none of their arguments: '
                             'the sample_ columns of a returned table keep pointing at the cyclepoints its features were computed from')
    f = model.find('compute_features')
    site = f'{f.path}:{f.node.lineno} compute_features'
    fek = ('dict', (('boundary', ('param', 'boundary')), ('filter_kwargs', ('dict', (('n_cycles', ('param', 'fk_n_cycles')),)))))
    for label, fe in (('None', NONE), ('boundary+filter n_cycles', fek)):
        for method in ('cycles', 'amp'):
            res, ctx = E.run(model, f.qual, {'find_extrema_kwargs': fe, 'burst_method': C(method), 'center_extrema': ('param', 'center_extrema'),
                                             'threshold_kwargs': ('dict', ()), 'burst_kwargs': NONE}, no_inline=E.HEAVY)
            evs = [e for e in E.calls_to(ctx, 'compute_shape_features') if e['kind'] == 'pkgcall']
            inst = f'find_extrema_kwargs={label}:{method}'
            if len(evs) != 1:
                rep.violation('BAND-WIRING', inst, site, expected='one compute_shape_features call', found=f'{len(evs)} calls')
                continue
            b = evs[0]['bound']
            want = {'sig': ('param', 'sig'), 'fs': ('param', 'fs'), 'f_range': ('param', 'f_range'), 'center_extrema': ('param', 'center_extrema'), 'find_extrema_kwargs': fe}
            bad = {k: T.brief(b.get(k), 60) if b.get(k) is not None else 'unbound' for k in want if b.get(k, NONE if k == 'find_extrema_kwargs' else None) != want[k]
                   and not (k == 'find_extrema_kwargs' and common.same_extrema_options(model, b.get(k, NONE), want[k]))}
            if b.get('n_cycles', C(3)) != C(3):
                bad['n_cycles'] = T.brief(b['n_cycles'], 80)
            if bad or evs[0]['problems']:
                rep.violation('BAND-WIRING', inst, evs[0]['where'] or site, expected='(sig, fs, f_range, center_extrema, find_extrema_kwargs) as given; n_cycles left at 3', found=f'{bad} {evs[0]["problems"]}')
            else:
                rep.ok('BAND-WIRING', inst, evs[0]['where'] or site, found='arguments passed through; band-amplitude filter at its documented default')
    common.args_intact(rep, model, ['limit_df', 'drop_samples_df', 'get_extrema_df', 'epoch_df'], rule='TABLE-INTACT', why='a returned table must keep describing the original signal')


def rename_def(rep, model):
    """rename_extrema_df, the documented conversion of a peak-centred table of the negated signal into the trough-centred table of the signal, on its own"""
    rep.rule('RENAME-DEF', 'rename_extrema_df(centre, table, return_samples) called directly: for "trough" every peak/trough and rise/decay column is swapped, volt_peak / volt_trough are '
                           'negated and time_rdsym / time_ptsym become 1 - x, whether or not the table carries sample_ columns (they are swapped too when it does); for "peak" the table '
                           'is returned as it is')
    f = model.find('rename_extrema_df')
    site = f'{f.path}:{f.node.lineno} rename_extrema_df'
    samples = list(E.SAMPLE_COLS['peak'].values())
    for with_samples in (True, False):
        names = list(E.SHAPE_COLS) + (samples if with_samples else [])
        tab = E.abstract_table('F', names)
        src = dict(tab[1])
        for centre in ('trough', 'peak'):
            r, ctx = E.run(model, f.qual, {f.params[0]: C(centre), f.params[1]: tab, f.params[2]: C(with_samples)})
            if centre == 'peak':
                want = tab
            else:
                cols = {}
                for c in names:
                    v = src[c]
                    if c in ('volt_peak', 'volt_trough'):
                        v = T.neg(v)
                    elif c in ('time_rdsym', 'time_ptsym'):
                        v = T.sub(C(1), v)
                    cols[E.mu(c)] = v
                want = E.table_of(cols, tab[2])
            rep.compare('RENAME-DEF', f'{centre}:{"with" if with_samples else "without"} sample columns', site, r, want, ctx.unmodelled)


def standalone(rep, model):
    """the five public shape functions called on their own (peak-centred cyclepoint table, as documented)"""
    rep.rule('DEF-STANDALONE', 'compute_durations / compute_extrema_voltage / compute_symmetry (with and without precomputed durations) / compute_band_amp, called directly on a '
                               'cyclepoint table, return the documented definitions')
    S = E.abstract_table('S', list(E.SAMPLE_COLS['peak'].values()))
    sig = ('param', 'sig')
    spec, _ = E.spec('shape_features', {'S': S, 'x': sig, 'fs': ('param', 'fs'), 'f_range': ('param', 'f_range'), 'n_cycles': ('param', 'n_cycles'), 'centre': C('peak')})
    sd = dict(spec[1])

    def run(name, bound):
        f = model.find(name)
        r, ctx = E.run(model, f.qual, bound)
        return f, r, ctx
    f, r, ctx = run('compute_durations', {'df_samples': S})
    rep.compare('DEF-STANDALONE', 'compute_durations', f'{f.path}:{f.node.lineno} compute_durations', r, ('tuple', (sd['period'], sd['time_peak'], sd['time_trough'])), ctx.unmodelled)
    f, r, ctx = run('compute_extrema_voltage', {'df_samples': S, 'sig': sig})
    rep.compare('DEF-STANDALONE', 'compute_extrema_voltage', f'{f.path}:{f.node.lineno} compute_extrema_voltage', r, ('tuple', (sd['volt_peak'], sd['volt_trough'])), ctx.unmodelled)
    keys = ('time_decay', 'time_rise', 'volt_decay', 'volt_rise', 'volt_amp', 'time_rdsym', 'time_ptsym')
    want = ('dict', tuple(sorted((k, sd[k]) for k in keys)))
    f, r, ctx = run('compute_symmetry', {'df_samples': S, 'sig': sig})
    rep.compare('DEF-STANDALONE', 'compute_symmetry(durations omitted)', f'{f.path}:{f.node.lineno} compute_symmetry', r, want, ctx.unmodelled)
    f, r, ctx = run('compute_symmetry', {'df_samples': S, 'sig': sig, 'period': sd['period'], 'time_peak': sd['time_peak'], 'time_trough': sd['time_trough']})
    rep.compare('DEF-STANDALONE', 'compute_symmetry(durations given)', f'{f.path}:{f.node.lineno} compute_symmetry', r, want, ctx.unmodelled)
    f, r, ctx = run('compute_band_amp', {'df_samples': S, 'sig': sig, 'fs': ('param', 'fs'), 'f_range': ('param', 'f_range'), 'n_cycles': ('param', 'n_cycles')})
    # the tiling fact l[i+1] == n[i] holds for tables from compute_cyclepoints (C01); on an abstract table the two window idioms differ syntactically,
    # so compare on the table the pipeline actually produces
    St, _ = E.run(model, 'compute_cyclepoints', {'sig': sig, 'fs': ('param', 'fs'), 'f_range': ('param', 'f_range')}, overrides=E.CYCLEPOINT_ABS)
    if St is not None and St[0] == 'table':
        f, r, ctx = run('compute_band_amp', {'df_samples': St, 'sig': sig, 'fs': ('param', 'fs'), 'f_range': ('param', 'f_range'), 'n_cycles': ('param', 'n_cycles')})
        spec2, _ = E.spec('shape_features', {'S': St, 'x': sig, 'fs': ('param', 'fs'), 'f_range': ('param', 'f_range'), 'n_cycles': ('param', 'n_cycles'), 'centre': C('peak')})
        rep.compare('DEF-STANDALONE', 'compute_band_amp', f'{f.path}:{f.node.lineno} compute_band_amp', r, dict(spec2[1])['band_amp'], ctx.unmodelled)


def _doc_defaults(rep, model):
    from . import common as _c
    _c.doc_defaults(rep, model, ['compute_shape_features', 'compute_band_amp', 'compute_symmetry'])
