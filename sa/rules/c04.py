"""C04 - shape features equal their documented definitions (definition-table agreement)."""
from .. import terms as T
from ..terms import C, NONE
from .. import engine as E


def shape_tables(model):
    """symbolic result of compute_shape_features per centring, with find_extrema / find_zerox as atoms"""
    out = {}
    for centre in ('peak', 'trough'):
        res, ctx = E.run(model, 'compute_shape_features',
                         {'center_extrema': C(centre), 'find_extrema_kwargs': NONE, 'n_cycles': ('param', 'n_cycles')},
                         overrides=E.CYCLEPOINT_ABS)
        out[centre] = (res, ctx)
    return out


def check(rep, model, tier):
    rep.rule('DEF', 'every shape column of compute_shape_features, per centring, has the same normal form as the documented '
                    'definition (sa/refspec/shape.py) evaluated on the returned sample columns and the original signal')
    rep.rule('COLSET', 'the returned table has exactly the documented shape columns plus the six sample columns of its centring')
    rep.assumptions += ['find_extrema/find_zerox are abstraction points (arrays P, TR, R, D with P0<T0<P1..; decided by C01-C03)',
                        'amp_by_time(-x) == amp_by_time(x) (magnitude of the analytic signal; exact under IEEE negation)',
                        'pandas element-wise arithmetic on columns of one table; Series.values/to_numpy value-preserving']
    fn = model.find('compute_shape_features')
    n_inst = 0
    for centre, (res, ctx) in shape_tables(model).items():
        site = f'{fn.path}:{fn.node.lineno} compute_shape_features[center_extrema={centre}]'
        if res is None or res[0] != 'table':
            rep.unresolved('DEF', f'{centre}:table', site, f'result is not a table term: {T.brief(res) if res else None}')
            continue
        cols = dict(res[1])
        want_samples = set(E.SAMPLE_COLS[centre].values())
        have_samples = {c for c in cols if c.startswith('sample_')}
        if have_samples != want_samples:
            rep.violation('COLSET', f'{centre}:samples', site, expected=sorted(want_samples), found=sorted(have_samples))
            continue
        have_shape = set(cols) - have_samples
        if have_shape != set(E.SHAPE_COLS):
            rep.violation('COLSET', f'{centre}:shape', site, expected=sorted(E.SHAPE_COLS), found=sorted(have_shape))
        else:
            rep.ok('COLSET', centre, site, found=f'{len(cols)} columns')
        S = E.table_of({c: cols[c] for c in want_samples}, res[2])
        spec, sctx = E.spec('shape_features', {'S': S, 'x': ('param', 'sig'), 'fs': ('param', 'fs'), 'f_range': ('param', 'f_range'),
                                               'n_cycles': ('param', 'n_cycles'), 'centre': C(centre)})
        sd = dict(spec[1])
        for col in E.SHAPE_COLS:
            if col not in cols:
                continue
            rep.compare('DEF', f'{centre}:{col}', site, cols[col], sd[col], ctx.unmodelled)
            n_inst += 1
    rep.floor('shape definitions compared', n_inst, 26)
