"""C14 - Bycycle objects reproduce the functional API and hold no stale state."""
from .. import terms as T
from ..terms import C, NONE
from .. import engine as E
from .. import symeval as SE
from . import common

BY, GRP, BASE = 'bycycle.objs.fit.Bycycle', 'bycycle.objs.fit.BycycleGroup', 'bycycle.objs.fit.BycycleBase'
TH = ('dict', (('amp_fraction_threshold', ('param', 'th_af')), ('min_n_cycles', ('param', 'th_mn')), ('monotonicity_threshold', ('param', 'th_mo'))))
SETTINGS = {'center_extrema': ('param', 'center_extrema'), 'burst_method': ('param', 'burst_method'), 'burst_kwargs': ('param', 'burst_kwargs'),
            'thresholds': TH, 'find_extrema_kwargs': ('param', 'find_extrema_kwargs'), 'return_samples': ('param', 'return_samples')}
KINDS = {'burst_kwargs': 'dict', 'find_extrema_kwargs': 'dict'}
OWN_ATTRS = {BY: {'sig', 'fs', 'f_range', 'df_features'}, GRP: {'sigs', 'fs', 'f_range', 'axis', 'n_jobs', 'df_features', 'models', 'n_dims'}}


def new_ctx(model, no_inline):
    return SE.Ctx(model, no_inline=no_inline, kinds=KINDS)


def check(rep, model, tier):
    rep.rule('ARG-NAME', 'Bycycle.fit calls compute_features once, unconditionally after the dimensionality guard, with every stored setting bound to the '
                         'parameter of the same name (thresholds -> threshold_kwargs) and stores the result as df_features; Bycycle.plot binds to '
                         'plot_burst_detect_summary by name; BycycleGroup.fit binds to compute_features_2d/3d by name')
    rep.rule('NO-STALE', 'fit / recompute_edges / plot / load read only the stored settings and their arguments: the arguments of the delegated call contain '
                         'no previous result, and the methods assign only their own result attributes')
    rep.rule('EFF-SELF', 'no method writes through a stored option object (thresholds, burst_kwargs, find_extrema_kwargs) or through an argument (closed effect summary)')
    rep.rule('REDUCE', 'reduce_thresholds returns a new dictionary: keys ending in "threshold" lowered by the reduction (None -> 0), other keys copied')
    rep.rule('RECOMPUTE', 'Bycycle.recompute_edges(r) stores recompute_edges(self.df_features, reduce_thresholds(r))')
    rep.rule('GETATTR', 'attribute access returns the values of the df_features column of that name; unknown names raise AttributeError')
    rep.rule('LOAD', 'load stores its four arguments under their names')
    rep.rule('INDEX-AGREE', 'BycycleGroup.models[i] ([i][j] for 3-D) is a Bycycle with the group settings loaded from df_features[i] ([i][j]) and the signal at '
                            'the same position; the container is filled row by row into distinct rows')
    rep.rule('SHORTHAND', 'threshold shorthand names are expanded (k -> k_threshold, min_n_cycles kept) -- shared with C06 DEFAULT-KEYS')
    rep.assumptions += ['equality of tables for all histories is reduced to: same callee, same arguments, no hidden state; values are not compared',
                        'compute_features is pure (C15)']
    summ, det, rounds, ro = common.effects(model)
    default_agree(rep, model)
    init_store(rep, model)
    fit(rep, model)
    reduce_and_recompute(rep, model)
    getattr_load(rep, model)
    group(rep, model)
    group_recompute(rep, model)
    settings_shared(rep, model, det)
    defaults_fresh(rep, model, det)
    effself(rep, model, summ, det)
    from . import c06
    c06.default_keys(rep, model)
    for i in rep.instances:
        if i['rule'] == 'DEFAULT-KEYS':
            i['rule'] = 'SHORTHAND'
    rep.floor('rule instances', len(rep.instances), 30)


def default_agree(rep, model):
    """an option omitted at the object front end means what it means in the functional API"""
    import ast
    rep.rule('DEFAULT-AGREE', 'the constructor defaults of Bycycle / BycycleGroup equal the defaults of compute_features for the options they share (thresholds <-> threshold_kwargs), '
                              'and the group functions agree with compute_features on return_samples: omitting an option selects the same analysis through either API')
    cf = model.find('compute_features')
    pairs = {'center_extrema': 'center_extrema', 'burst_method': 'burst_method', 'burst_kwargs': 'burst_kwargs', 'thresholds': 'threshold_kwargs',
             'find_extrema_kwargs': 'find_extrema_kwargs', 'return_samples': 'return_samples'}

    def dv(fn, p):
        d = fn.defaults.get(p)
        return ast.unparse(d) if d is not None else '<required>'
    for cls in (BASE, BY, GRP):
        init = model.funcs.get(f'{cls}.__init__')
        if init is None:
            continue
        site = f'{init.path}:{init.node.lineno} {cls.rsplit(".", 1)[1]}.__init__'
        for p, q in pairs.items():
            if p not in init.params:
                continue
            a, b = dv(init, p), dv(cf, q)
            if a == b:
                rep.ok('DEFAULT-AGREE', f'{cls.rsplit(".", 1)[1]}.__init__({p})', site, found=f'{a} == compute_features({q})')
            else:
                rep.violation('DEFAULT-AGREE', f'{cls.rsplit(".", 1)[1]}.__init__({p})', site, expected=f'{b} (default of compute_features {q})', found=a)
    for g in ('compute_features_2d', 'compute_features_3d'):
        gf = model.find(g)
        a, b = dv(gf, 'return_samples'), dv(cf, 'return_samples')
        (rep.ok if a == b else lambda *x, **k: rep.violation(*x[:3], expected=b, found=a))('DEFAULT-AGREE', f'{g}(return_samples)', f'{gf.path}:{gf.node.lineno} {g}', found=f'{a} == compute_features')


def init_store(rep, model):
    """the constructor stores the settings it is given (and the documented defaults when they are omitted)"""
    rep.rule('INIT-STORE', 'Bycycle / BycycleGroup constructors store each setting they are given under its own name; omitted burst_kwargs / find_extrema_kwargs / thresholds '
                           'become {} / {"filter_kwargs": {"n_cycles": 3}} / the documented default thresholds of the burst method; result attributes start as None')
    for cls in (BY, GRP):
        short = cls.rsplit('.', 1)[1]
        init = model.lookup_method(cls, '__init__')
        site = f'{init.path}:{init.node.lineno} {short}.__init__'
        ctx = new_ctx(model, ())
        o = E.make_object(ctx, model, cls, SETTINGS)
        at = E.attrs(ctx, o)
        want = {'center_extrema': SETTINGS['center_extrema'], 'burst_method': SETTINGS['burst_method'], 'burst_kwargs': SETTINGS['burst_kwargs'],
                'thresholds': TH, 'find_extrema_kwargs': SETTINGS['find_extrema_kwargs'], 'return_samples': SETTINGS['return_samples'],
                'sig' if cls == BY else 'fs': NONE, 'fs': NONE, 'f_range': NONE, 'df_features': NONE}
        bad = {k: T.brief(at.get(k), 60) if at.get(k) is not None else 'unset' for k in want if at.get(k) != want[k]}
        if bad:
            rep.violation('INIT-STORE', f'{short}(settings given)', site, expected={k: T.brief(v, 40) for k, v in want.items()}, found=bad)
        else:
            rep.ok('INIT-STORE', f'{short}(settings given)', site, found=f'{len(want)} attributes as given / None')
        for method, th in (('cycles', ('dict', (('amp_consistency_threshold', C(T.Fraction(1, 2))), ('amp_fraction_threshold', C(0)), ('min_n_cycles', C(3)),
                                                ('monotonicity_threshold', C(T.Fraction(4, 5))), ('period_consistency_threshold', C(T.Fraction(1, 2)))))),
                           ('amp', ('dict', (('burst_fraction_threshold', C(1)), ('min_n_cycles', C(3)))))):
            ctx = new_ctx(model, ())
            o = E.make_object(ctx, model, cls, {'burst_method': C(method)})
            at = E.attrs(ctx, o)
            want = {'burst_kwargs': ('dict', ()), 'find_extrema_kwargs': ('dict', (('filter_kwargs', ('dict', (('n_cycles', C(3)),))),)), 'thresholds': th,
                    'center_extrema': C('peak'), 'return_samples': T.TRUE}
            bad = {k: T.brief(at.get(k), 80) if at.get(k) is not None else 'unset' for k in want if at.get(k) != want[k]}
            if bad:
                rep.violation('INIT-STORE', f'{short}(defaults, {method})', site, expected={k: T.brief(v, 60) for k, v in want.items()}, found=bad)
            else:
                rep.ok('INIT-STORE', f'{short}(defaults, {method})', site, found='documented defaults')


def previous_results(t, obj_attrs_before):
    """does a term mention a previous result of the object (df_features / sig / fs / f_range before the call)?"""
    olds = {v for k, v in obj_attrs_before.items() if k in ('df_features',) and v != NONE}
    return [T.brief(x, 50) for x in T.walk(t) if x in olds]


def fit(rep, model):
    f = model.funcs[f'{BY}.fit']
    site = f'{f.path}:{f.node.lineno} Bycycle.fit'
    ctx = new_ctx(model, ('compute_features', 'recompute_edges', 'plot_burst_detect_summary'))
    o = E.make_object(ctx, model, BY, SETTINGS)
    a0 = dict(E.attrs(ctx, o))
    # simulate an earlier history: previous results and fitted state present
    E.attrs(ctx, o).update(df_features=('atom', 'OLD_df_features', 'table'), sig=('atom', 'OLD_sig', 'arr'), fs=('atom', 'OLD_fs', 'num'),
                           f_range=('atom', 'OLD_f_range', 'any'))
    # ... and every other attribute that is not a setting (bookkeeping a method may keep between calls) holds an unknown earlier value
    for k in list(E.attrs(ctx, o)):
        if k not in SETTINGS and k not in ('df_features', 'sig', 'fs', 'f_range'):
            E.attrs(ctx, o)[k] = ('atom', 'OLD_' + k, 'any')
    a_prev = dict(E.attrs(ctx, o))
    ctx.trace.clear()
    ctx.raises.clear()
    E.run(model, f.qual, {'self': o}, ctx=ctx)
    evs = E.calls_to(ctx, 'compute_features')
    cf = model.find('compute_features')
    if len(evs) != 1 or evs[0]['loops']:
        rep.violation('ARG-NAME', 'fit:call', site, expected='exactly one compute_features call', found=f'{len(evs)} calls')
        return
    e = evs[0]
    guards_ok = e['guard'] == T.TRUE
    if not guards_ok:
        rep.violation('ARG-NAME', 'fit:unconditional', site, expected='the delegated call is unconditional once the 1-D guard passed', found=T.brief(e['guard'], 120))
    want = {'sig': ('param', 'sig'), 'fs': ('param', 'fs'), 'f_range': ('param', 'f_range'), 'center_extrema': a0['center_extrema'],
            'burst_method': a0['burst_method'], 'burst_kwargs': a0['burst_kwargs'], 'threshold_kwargs': a0['thresholds'],
            'find_extrema_kwargs': a0['find_extrema_kwargs'], 'return_samples': a0['return_samples']}
    for p in cf.params:
        got = e['bound'].get(p)
        if p not in want:
            rep.unresolved('ARG-NAME', f'fit:{p}', site, f'compute_features has a parameter {p!r} the oracle table (DESIGN.md A.6) does not know')
            continue
        if got == want[p] and not e['problems']:
            rep.ok('ARG-NAME', f'fit:{p}', site, found=T.brief(got, 80))
        else:
            rep.violation('ARG-NAME', f'fit:{p}', site, expected=want[p], found=got if got is not None else f'unbound; problems {e["problems"]}')
    stale = [x for v in e['bound'].values() for x in T.walk(v) if x[0] == 'atom' and x[1].startswith('OLD_')]
    if stale:
        rep.violation('NO-STALE', 'fit:arguments', site, expected='arguments built from the current settings and the call arguments only', found=sorted({x[1] for x in stale}))
    else:
        rep.ok('NO-STALE', 'fit:arguments', site, found='no previous result reaches compute_features')
    after = E.attrs(ctx, o)
    if after.get('df_features') == e['result']:
        rep.ok('ARG-NAME', 'fit:result stored', site, found='self.df_features = compute_features(...)')
    else:
        rep.violation('ARG-NAME', 'fit:result stored', site, expected='self.df_features is the value returned by compute_features', found=after.get('df_features'))
    changed = {k for k in set(after) | set(a_prev) if after.get(k) != a_prev.get(k) and not (k in ('df_features', 'sig', 'fs', 'f_range'))}
    if changed:
        rep.violation('NO-STALE', 'fit:settings untouched', site, expected='fit assigns only sig, fs, f_range, df_features', found=sorted(changed))
    else:
        rep.ok('NO-STALE', 'fit:settings untouched', site, found='only result attributes assigned')
    if any(r[0] == 'ValueError' and 'ndim' in repr(r[1]) for r in ctx.raises):
        rep.ok('ARG-NAME', 'fit:1-D guard', site, found='ValueError unless sig.ndim == 1')
    else:
        rep.violation('ARG-NAME', 'fit:1-D guard', site, expected='ValueError unless sig.ndim == 1', found=[(r[0], T.brief(r[1], 60)) for r in ctx.raises])
    # plot
    p = model.funcs[f'{BY}.plot']
    ctx.trace.clear()
    ctx.raises.clear()
    pk = {k: ('param', k) for k in p.params if k != 'self'}
    E.attrs(ctx, o).update(df_features=('atom', 'FITTED_df_features', 'table'), sig=('atom', 'FITTED_sig', 'arr'), fs=('atom', 'FITTED_fs', 'num'))
    E.run(model, p.qual, dict(pk, self=o), ctx=ctx)
    evs = E.calls_to(ctx, 'plot_burst_detect_summary')
    psite = f'{p.path}:{p.node.lineno} Bycycle.plot'
    pb = model.find('plot_burst_detect_summary')
    if len(evs) != 1:
        rep.violation('ARG-NAME', 'plot:call', psite, expected='one plot_burst_detect_summary call', found=f'{len(evs)} calls')
    else:
        at = E.attrs(ctx, o)
        want = {'df_features': at['df_features'], 'sig': at['sig'], 'fs': at['fs'], 'threshold_kwargs': at['thresholds'], 'xlim': ('param', 'xlim'),
                'figsize': ('param', 'figsize'), 'plot_only_result': ('param', 'plot_only_results'), 'interp': ('param', 'interp')}
        bad = {k: (T.brief(evs[0]['bound'].get(k), 60) if evs[0]['bound'].get(k) else None) for k in want if evs[0]['bound'].get(k) != want[k]}
        if bad or evs[0]['problems']:
            rep.violation('ARG-NAME', 'plot:binding', psite, expected='fitted table, signal, fs, thresholds, xlim, figsize, plot_only_results, interp bound by name', found=f'{bad} {evs[0]["problems"]}')
        else:
            rep.ok('ARG-NAME', 'plot:binding', psite, found=f'{len(want)} arguments bound by name')
    # unfitted object: plotting must raise before any drawing
    ctx2 = new_ctx(model, ('compute_features', 'plot_burst_detect_summary'))
    o2 = E.make_object(ctx2, model, BY, SETTINGS)
    ctx2.trace.clear()
    ctx2.raises.clear()
    E.run(model, p.qual, {'self': o2}, ctx=ctx2)
    if any(r[0] == 'ValueError' and r[1] == T.TRUE for r in ctx2.raises) and not E.calls_to(ctx2, 'plot_burst_detect_summary'):
        rep.ok('ARG-NAME', 'plot:fitted-state guard', psite, found='ValueError before plotting on an unfitted object')
    else:
        rep.violation('ARG-NAME', 'plot:fitted-state guard', psite, expected='unconditional ValueError, no drawing', found=[(r[0], T.brief(r[1], 60)) for r in ctx2.raises])


def front_end(rep, model, rule='FRONT-END'):
    """shared clause for the pipeline properties: whatever state an object is in, Bycycle.fit is compute_features with the stored settings, so what the
    property says about the returned table holds for Bycycle.df_features too"""
    rep.rule(rule, 'Bycycle.fit, entered in an arbitrary earlier state (every non-setting attribute unknown), calls compute_features exactly once, unconditionally after the '
                   '1-D guard, with the stored settings bound by name, and stores what it returns: no shortcut, cache or earlier table can stand in for the analysis '
                   '(shared with C14 ARG-NAME / NO-STALE)')
    before = len(rep.instances)
    rules_before = dict(rep.rules)
    fit(rep, model)
    kept = []
    for i in rep.instances[before:]:
        if i['instance'].startswith('fit:') and i['rule'] in ('ARG-NAME', 'NO-STALE') and i['instance'] != 'fit:settings untouched':
            i = dict(i, rule=rule)
            if i.get('key'):
                i['key'] = rule + '@' + i['instance']
            kept.append(i)
    rep.instances[before:] = kept
    for k in list(rep.rules):
        if k not in rules_before and k != rule:
            del rep.rules[k]


def reduce_and_recompute(rep, model):
    f = model.funcs[f'{BASE}.reduce_thresholds']
    site = f'{f.path}:{f.node.lineno} reduce_thresholds'
    for red, rt in (('r', ('atom', 'r', 'num')), ('None', NONE)):
        ctx = new_ctx(model, ('recompute_edges',))
        o = E.make_object(ctx, model, BY, SETTINGS)
        res, _ = E.run(model, f.qual, {'self': o, 'reduction': rt}, ctx=ctx)
        r = ('atom', 'r', 'num') if red == 'r' else C(0)
        want = ('dict', tuple(sorted((k, T.sub(v, r) if k.endswith('threshold') else v) for k, v in TH[1])))
        rep.compare('REDUCE', f'reduction={red}', site, res, want, ctx.unmodelled)
        if E.attrs(ctx, o)['thresholds'] != TH:
            rep.violation('REDUCE', f'reduction={red}:settings untouched', site, expected='self.thresholds unchanged', found=E.attrs(ctx, o)['thresholds'])
        else:
            rep.ok('REDUCE', f'reduction={red}:settings untouched', site, found='self.thresholds unchanged')
    g = model.funcs[f'{BY}.recompute_edges']
    gsite = f'{g.path}:{g.node.lineno} Bycycle.recompute_edges'
    ctx = new_ctx(model, ('recompute_edges',))
    o = E.make_object(ctx, model, BY, SETTINGS)
    old = ('atom', 'FITTED_df_features', 'table')
    E.attrs(ctx, o)['df_features'] = old
    ctx.trace.clear()
    E.run(model, g.qual, {'self': o, 'reduction': ('atom', 'r', 'num')}, ctx=ctx)
    evs = E.calls_to(ctx, 'recompute_edges')
    evs = [e for e in evs if e['kind'] == 'pkgcall' and not e['name'].startswith(BY)]
    want_tk = ('dict', tuple(sorted((k, T.sub(v, ('atom', 'r', 'num')) if k.endswith('threshold') else v) for k, v in TH[1])))
    rc = model.find('recompute_edges')
    if len(evs) == 1 and evs[0]['bound'].get(rc.params[0]) == old and evs[0]['bound'].get(rc.params[1]) == want_tk and not evs[0]['problems'] \
            and E.attrs(ctx, o)['df_features'] == evs[0]['result'] and set(evs[0]['bound']) <= set(rc.params[:2]):
        rep.ok('RECOMPUTE', 'Bycycle.recompute_edges', gsite, found='self.df_features = recompute_edges(self.df_features, reduced thresholds)')
    else:
        rep.violation('RECOMPUTE', 'Bycycle.recompute_edges', gsite, expected=f'recompute_edges(fitted table, {T.show(want_tk)}) stored as df_features',
                      found=[{k: T.brief(v, 80) for k, v in e['bound'].items()} for e in evs] or 'no call')


def getattr_load(rep, model):
    f = model.funcs[f'{BY}.__getattr__']
    site = f'{f.path}:{f.node.lineno} Bycycle.__getattr__'
    ctx = new_ctx(model, ())
    o = E.make_object(ctx, model, BY, SETTINGS)
    S = E.abstract_table('S', E.SHAPE_COLS)
    E.attrs(ctx, o)['df_features'] = S
    res, _ = E.run(model, f.qual, {'self': o, 'key': C('period')}, ctx=ctx)
    rep.compare('GETATTR', 'existing column', site, res, ('col', 'S', 'period'), ctx.unmodelled)
    ctx.raises.clear()
    res, _ = E.run(model, f.qual, {'self': o, 'key': C('no_such_column')}, ctx=ctx)
    if res is None and any(r[0] == 'AttributeError' for r in ctx.raises):
        rep.ok('GETATTR', 'unknown name', site, found='AttributeError')
    else:
        rep.violation('GETATTR', 'unknown name', site, expected='AttributeError', found=res)
    ld = model.funcs[f'{BY}.load']
    ctx = new_ctx(model, ())
    o = E.make_object(ctx, model, BY, SETTINGS)
    a0 = dict(E.attrs(ctx, o))
    args = {k: ('param', 'L_' + k) for k in ('df_features', 'sig', 'fs', 'f_range')}
    E.run(model, ld.qual, dict(args, self=o), ctx=ctx)
    at = E.attrs(ctx, o)
    lsite = f'{ld.path}:{ld.node.lineno} Bycycle.load'
    bad = {k: T.brief(at.get(k), 50) for k in args if at.get(k) != args[k]}
    other = {k for k in at if k not in args and at[k] != a0.get(k)}
    if bad or other:
        rep.violation('LOAD', 'Bycycle.load', lsite, expected='each argument stored under its own name, nothing else changed', found=f'{bad} {sorted(other)}')
    else:
        rep.ok('LOAD', 'Bycycle.load', lsite, found='df_features, sig, fs, f_range stored by name')


def group(rep, model):
    f = model.funcs[f'{GRP}.fit']
    site = f'{f.path}:{f.node.lineno} BycycleGroup.fit'
    f2, f3 = model.find('compute_features_2d'), model.find('compute_features_3d')
    if f2.params != f3.params:
        rep.violation('ARG-NAME', 'group:2d/3d signatures agree', site, expected=f2.params, found=f3.params)
    else:
        rep.ok('ARG-NAME', 'group:2d/3d signatures agree', site, found=f2.params)
    for nd, callee in ((2, 'compute_features_2d'), (3, 'compute_features_3d')):
        ctx = new_ctx(model, ('compute_features_2d', 'compute_features_3d'))
        ctx.facts[('ndim', ('param', 'sigs'))] = C(nd)
        o = E.make_object(ctx, model, GRP, SETTINGS)
        a0 = dict(E.attrs(ctx, o))
        # an arbitrary earlier history: every attribute that is not a setting (results, the previous array, bookkeeping a method may keep) holds an unknown earlier value
        for k_ in list(E.attrs(ctx, o)):
            if k_ not in SETTINGS:
                E.attrs(ctx, o)[k_] = ('atom', 'OLD_' + k_, 'any')
        ctx.trace.clear()
        ctx.raises.clear()
        args = {k: ('param', k) for k in f.params if k != 'self'}
        E.run(model, f.qual, dict(args, self=o), ctx=ctx)
        evs = [e for e in E.calls_to(ctx, callee) if e['kind'] == 'pkgcall']
        other = [e for e in E.calls_to(ctx, 'compute_features_3d' if nd == 2 else 'compute_features_2d') if e['kind'] == 'pkgcall']
        if len(evs) != 1 or other:
            rep.violation('ARG-NAME', f'group[{nd}-D]:callee', site, expected=f'exactly one call, to {callee}', found=f'{len(evs)} + {len(other)} other')
            continue
        e = evs[0]
        history = sorted({x[1] for c_ in [e['guard']] + list(e.get('perm', ())) for x in T.walk(c_) if x[0] == 'atom' and x[1].startswith('OLD_')})
        stale = sorted({x[1] for v in e['bound'].values() for x in T.walk(v) if x[0] == 'atom' and x[1].startswith('OLD_')})
        if history or stale:
            rep.violation('NO-STALE', f'group[{nd}-D]:fit', site, expected='the group analysis runs on every fit, whatever the object held before, with arguments built from the settings and the call arguments only',
                          found=(f'the call depends on earlier state {history}' if history else '') + (f' arguments carry earlier state {stale}' if stale else ''))
        else:
            rep.ok('NO-STALE', f'group[{nd}-D]:fit', site, found='one call, independent of what the object held before')
        want_kw = ('dict', tuple(sorted({'center_extrema': a0['center_extrema'], 'burst_method': a0['burst_method'], 'burst_kwargs': a0['burst_kwargs'],
                                         'threshold_kwargs': a0['thresholds'], 'find_extrema_kwargs': a0['find_extrema_kwargs']}.items())))
        want = {'sigs': ('param', 'sigs'), 'fs': ('param', 'fs'), 'f_range': ('param', 'f_range'), 'compute_features_kwargs': want_kw,
                'axis': ('param', 'axis'), 'return_samples': a0['return_samples'], 'n_jobs': ('param', 'n_jobs'), 'progress': ('param', 'progress')}
        bad = {k: (T.brief(e['bound'].get(k), 70) if e['bound'].get(k) else None) for k in want if e['bound'].get(k) != want[k]}
        if bad or e['problems']:
            rep.violation('ARG-NAME', f'group[{nd}-D]:binding', site, expected='all eight arguments bound by name; option dictionary keyed by compute_features parameter names',
                          found=f'{bad} {e["problems"]}')
        else:
            rep.ok('ARG-NAME', f'group[{nd}-D]:binding', site, found='8 arguments bound by name')
        at = E.attrs(ctx, o)
        if at.get('df_features') != e['result']:
            rep.violation('ARG-NAME', f'group[{nd}-D]:result stored', site, expected='self.df_features = group result', found=at.get('df_features'))
        # models
        models = at.get('models')
        ok, why = models_agree(ctx, models, at, nd, a0)
        if ok:
            rep.ok('INDEX-AGREE', f'group[{nd}-D]:models', site, found=why)
        else:
            rep.violation('INDEX-AGREE', f'group[{nd}-D]:models', site,
                          expected='models[i]' + ('[j]' if nd == 3 else '') + ' loaded from df_features and sigs at the same position, rows distinct', found=why)
    # dimensionality guard
    ctx = new_ctx(model, ('compute_features_2d', 'compute_features_3d'))
    ctx.facts[('ndim', ('param', 'sigs'))] = C(1)
    o = E.make_object(ctx, model, GRP, SETTINGS)
    ctx.raises.clear()
    ctx.trace.clear()
    E.run(model, f.qual, {'self': o}, ctx=ctx)
    if any(r[0] == 'ValueError' and r[1] == T.TRUE for r in ctx.raises) and not [e for e in ctx.trace if e['kind'] == 'pkgcall' and 'compute_features' in e['name']]:
        rep.ok('ARG-NAME', 'group:dimensionality guard', site, found='ValueError for a 1-D array before any analysis')
    else:
        rep.violation('ARG-NAME', 'group:dimensionality guard', site, expected='ValueError for ndim not in (2, 3)', found=[(r[0], T.brief(r[1], 50)) for r in ctx.raises])


def models_agree(ctx, models, at, nd, a0):
    if models is not None and models[0] == 'map' and nd == 2 and models[1][0] == 'zip':
        # the tables and the signals iterated in lockstep (zip / map(f, tables, sigs)): one position per signal, given one table per signal (which C11 decides)
        want = ('range', C(0), T.length(('param', 'sigs')), C(1))
        comps = models[1][1] if len(models[1]) == 2 and isinstance(models[1][1], tuple) else ()
        if want in comps:
            o_, n_ = ('lv', models[1], 0), ('lv', want, 0)
            models = ('map', want, T.subst(models[2], lambda y: n_ if y == o_ else None))
            for h_ in ctx.heap.values():            # what the loaded objects hold is written in terms of the same loop variable
                for k_, v_ in list(h_['attrs'].items()):
                    if isinstance(v_, tuple) and any(y == o_ for y in T.walk(v_)):
                        h_['attrs'][k_] = T.subst(v_, lambda y: n_ if y == o_ else None)
    if models is not None and models[0] == 'map' and nd == 2 and models[1][0] == 'range':
        # a comprehension over the signals: the same element-wise definition as zeros(...).tolist() + a full-range store
        models = ('arr', ('call', 'zeros', (), ()), ((('lv', models[1], 0), models[2], T.TRUE),))
    if models is not None and models[0] == 'arr' and nd == 3 and len(models[2]) == 1 and models[2][0][0][0] == 'lv' and models[2][0][1][0] == 'map' \
            and models[2][0][1][1][0] == 'range':
        # models[i] = [model(i, j) for j ...]: the same element-wise definition as a store at [i][j]
        k0, v0, g0 = models[2][0]
        models = ('arr', models[1], ((('path', (k0, ('lv', v0[1], 1))), v0[2], g0),))
    if models is not None and models[0] == 'arr' and nd == 3 and len(models[2]) == 1 and models[2][0][0][0] == 'lv' and models[2][0][1][0] == 'arr' \
            and len(models[2][0][1][2]) == 1 and T.strip_nd(models[2][0][1][1]) == T.index(models[1], models[2][0][0]):
        # a helper filled row i of the placeholder in place (models[i][j] = model through an alias of models[i]): a store at [i][j]
        k0, row, g0 = models[2][0]
        k1, v1, g1 = row[2][0]
        models = ('arr', models[1], ((('path', (k0, k1)), v1, T.and_([g0, g1])),))
    if models is None or models[0] != 'arr':
        return False, f'self.models is not filled element-wise: {T.brief(models, 120) if models else None}'
    init, stores = models[1], models[2]
    # rows must be distinct objects: zeros(shape).tolist() or a nested comprehension; never list repetition of a list
    def rows_alias(t):
        # list repetition of a list (or of another repetition) yields ONE inner list referenced from every row
        return t[0] == 'call' and t[1] == 'seqrepeat' and t[2] and t[2][0][0] in ('list', 'tuple') and \
            any(e[0] in ('list', 'tuple') or (e[0] == 'call' and e[1] == 'seqrepeat') for e in t[2][0][1])
    if any(rows_alias(x) for x in T.walk(init)):
        return False, f'container rows alias each other: {T.brief(init, 120)}'
    flat_ok = nd == 2 and ((init[0] == 'call' and init[1] == 'seqrepeat') or init[0] in ('list',))
    if not (init[0] == 'call' and init[1] == 'zeros') and init[0] != 'map' and not flat_ok:
        return False, f'unrecognised container initialiser {T.brief(init, 120)}'
    if nd == 3 and init[0] == 'call' and init[1] == 'zeros' and not (init[2] and init[2][0][0] == 'tuple' and len(init[2][0][1]) == 2):
        return False, f'a 3-D group needs a two-level container, found {T.brief(init, 100)} (models[i][j] = ... would subscript a number)'
    if nd == 2 and init[0] == 'call' and init[1] == 'zeros' and init[2] and init[2][0][0] == 'tuple' and len(init[2][0][1]) != 1:
        pass            # a nested placeholder row is simply replaced by the model: harmless
    if len(stores) != 1:
        return False, f'{len(stores)} stores into self.models'
    k, v, g = stores[0]
    if g != T.TRUE or v[0] != 'obj':
        return False, f'store value {T.brief(v, 60)} under guard {T.brief(g, 60)}'
    m = ctx.heap[v[1]]
    if not m['cls'].endswith('.Bycycle'):
        return False, f'model class {m["cls"]}'
    lv0 = ('lv', ('range', C(0), T.length(('param', 'sigs')), C(1)), 0)
    sig0 = T.index(('param', 'sigs'), lv0)
    if nd == 2:
        want_k, want_sig, want_df = lv0, sig0, T.index(at['df_features'], lv0)
    else:
        lv1 = ('lv', ('range', C(0), T.length(sig0), C(1)), 1)
        want_k = ('path', (lv0, lv1))
        want_sig = T.index(sig0, lv1)
        want_df = T.index(T.index(at['df_features'], lv0), lv1)
    ma = m['attrs']
    problems = []
    if k != want_k:
        problems.append(f'index {T.brief(k, 80)} (expected {T.brief(want_k, 80)})')
    if ma.get('sig') != want_sig:
        problems.append(f'signal {T.brief(ma.get("sig"), 80)}')
    if ma.get('df_features') != want_df:
        problems.append(f'table {T.brief(ma.get("df_features"), 80)}')
    if ma.get('fs') != ('param', 'fs') or ma.get('f_range') != ('param', 'f_range'):
        problems.append('fs / f_range')
    for s in ('center_extrema', 'burst_method', 'burst_kwargs', 'thresholds', 'find_extrema_kwargs', 'return_samples'):
        if ma.get(s) != a0.get(s):
            problems.append(f'setting {s}: {T.brief(ma.get(s), 60)}')
    # one model object per position: the object stored at [i] / [i][j] is constructed inside the loop nest that stores it (an object constructed further out is
    # one object referenced from several positions; after the loop all of them show what was loaded last)
    made = [e for e in ctx.trace if e['kind'] == 'construct' and e.get('obj') == v]
    depth = 1 if nd == 2 else 2
    if made and len(made[-1]['loops']) < depth:
        problems.append(f'the model is constructed outside the loop over {"signals" if len(made[-1]["loops"]) == 0 else "the second dimension"} ({made[-1]["where"]}): '
                        'every position of that loop holds the same object')
    if problems:
        return False, '; '.join(problems)
    return True, 'same-position table, signal and settings; one model object per position'


def effself(rep, model, summ, det):
    for cls, names in ((BY, ('fit', 'recompute_edges', 'plot', 'load', '__getattr__')), (BASE, ('reduce_thresholds',)), (GRP, ('fit', 'recompute_edges'))):
        for name in names:
            q = f'{cls}.{name}'
            if q not in model.funcs:
                rep.unresolved('EFF-SELF', q, '-', 'method not found')
                continue
            f, s, a = model.funcs[q], summ[q], det[q]
            site = f'{f.path}:{f.node.lineno} {cls.rsplit(".", 1)[1]}.{name}'
            own = OWN_ATTRS.get(cls, set())
            bad_self = sorted(x for x in s['selfmut'] if x not in own)
            bad_par = sorted(s['mut'] - {'self'})
            assigned = sorted(w[1] for (w, *_r) in a.mut if w[0] == 'SelfAssign' and w[1] not in own)
            if bad_self or bad_par or assigned:
                hits = sorted((ln, c, via) for (w, ln, c, via) in a.mut if (w[0] == 'Self' and w[1] in bad_self) or (w[0] == 'P' and w[1] in bad_par))
                rep.violation('EFF-SELF', f'{cls.rsplit(".", 1)[1]}.{name}', site, expected=f'writes only to own result attributes {sorted(own)}',
                              found=f'writes through self.{bad_self} / parameters {bad_par} / assigns {assigned}: ' + '; '.join(f'{c}' + (f' [via {v}]' if v else '') for _, c, v in hits[:3]))
            else:
                rep.ok('EFF-SELF', f'{cls.rsplit(".", 1)[1]}.{name}', site, found='no write through option objects or arguments')


def lookup(t, i):
    """element i of a (possibly updated) literal list"""
    if t is None:
        return None
    if t[0] == 'arr':
        for k, v, g in reversed(t[2]):
            if k == C(i) and g == T.TRUE:
                return v
            if k[0] == 'path' and k[1] and k[1][0] == C(i) and g == T.TRUE and len(k[1]) == 2:
                # a store at [i][j]: row i with element j replaced
                row = lookup(t[1], i)
                return ('arr', row, ((k[1][1], v, g),)) if row is not None else None
        return lookup(t[1], i)
    if t[0] in ('list', 'tuple') and -len(t[1]) <= i < len(t[1]):
        return t[1][i]
    return None


def defaults_fresh(rep, model, det):
    """a freshly constructed object has the documented defaults, whatever was done to earlier objects: a default settings dictionary is built per object, never a
    module-level dictionary handed out by reference (an in-place edit through one object would change the defaults of every later one)"""
    rep.rule('DEFAULTS-FRESH', 'no settings attribute (thresholds, burst_kwargs, find_extrema_kwargs) of a constructed object is, or is part of, a module-level object: defaults are built '
                               'per object (alias analysis of what BycycleBase.__init__ / Bycycle.__init__ / BycycleGroup.__init__ store)')
    from ..effects import root
    n = 0
    for cls in (BASE, BY, GRP):
        init = model.funcs.get(f'{cls}.__init__')
        if init is None:
            continue
        isite = f'{init.path}:{init.node.lineno} {cls.rsplit(".", 1)[1]}.__init__'
        for attr in ('thresholds', 'burst_kwargs', 'find_extrema_kwargs'):
            held = det[init.qual].env.get('self.' + attr)
            if held is None:
                continue
            n += 1
            # a shallow copy owns its top level: enough for the flat dictionaries (numbers / tuples as values), not for find_extrema_kwargs, which nests filter_kwargs
            shared = sorted(str(x) for x in held if x[0] != 'NotC' and root(x)[0] == 'G' and not (x[0] == 'Sh' and attr != 'find_extrema_kwargs'))
            if shared:
                rep.violation('DEFAULTS-FRESH', f'{cls.rsplit(".", 1)[1]}.{attr}', isite, expected='a dictionary built for this object (literal, copy) or the one the caller passed',
                              found=f'{shared}: one module-level object shared by every object constructed with the default; an in-place edit of a setting leaks into later objects')
            else:
                rep.ok('DEFAULTS-FRESH', f'{cls.rsplit(".", 1)[1]}.{attr}', isite, found='caller\'s object or a fresh one')
    rep.floor('settings attributes examined for shared defaults', n, 3)


def settings_shared(rep, model, det):
    """a threshold edit on the group reaches the members: BycycleGroup.recompute_edges delegates to each member's own stored thresholds, so the members must
    hold the group's thresholds object itself (or the group must hand its thresholds down explicitly)"""
    import ast
    rep.rule('SETTINGS-SHARED', 'when BycycleGroup.recompute_edges lowers each member\'s own stored thresholds, those are the group\'s current thresholds: BycycleGroup.fit constructs '
                                'every member from self.thresholds itself and BycycleBase.__init__ stores the dictionary it is given (not a copy), so a threshold edit on the '
                                'group after a fit is what the next recompute_edges uses. Not required when the group passes its own thresholds down explicitly')
    g = model.funcs.get(f'{GRP}.recompute_edges')
    fit_ = model.funcs.get(f'{GRP}.fit')
    init = model.lookup_method(BY, '__init__')
    if g is None or fit_ is None or init is None:
        rep.unresolved('SETTINGS-SHARED', 'methods', '-', 'BycycleGroup.recompute_edges / fit or Bycycle.__init__ not found')
        return
    gsite = f'{g.path}:{g.node.lineno} BycycleGroup.recompute_edges'
    # whose thresholds does the group recomputation lower?  members get their own atoms
    ctx = new_ctx(model, (model.find('recompute_edges').qual,))
    grp_obj = E.make_object(ctx, model, GRP, SETTINGS)
    mth = ('dict', tuple((k, ('param', 'member_' + v[1])) for k, v in TH[1]))
    members = []
    for i in range(2):
        o = E.make_object(ctx, model, BY, dict(SETTINGS, thresholds=mth))
        E.attrs(ctx, o).update(df_features=('atom', f'FITTED_{i}', 'table'), sig=('atom', f'SIG_{i}', 'arr'), fs=('param', 'fs'), f_range=('param', 'f_range'))
        members.append(o)
    E.attrs(ctx, grp_obj).update(models=('list', tuple(members)), df_features=('list', tuple(E.attrs(ctx, o)['df_features'] for o in members)),
                                 sigs=('list', tuple(E.attrs(ctx, o)['sig'] for o in members)), n_dims=C(2), fs=('param', 'fs'), f_range=('param', 'f_range'))
    ctx.trace.clear()
    E.run(model, g.qual, {'self': grp_obj, 'reduction': ('atom', 'r', 'num')}, ctx=ctx)
    rc = model.find('recompute_edges')
    evs = [e for e in E.calls_to(ctx, 'recompute_edges') if e['kind'] == 'pkgcall' and '.objs.' not in e['name']]
    used = {x[1] for e in evs for x in T.walk(e['bound'].get(rc.params[1], NONE)) if x[0] == 'param'}
    from_members = {u for u in used if u.startswith('member_')}
    if not evs:
        rep.ok('SETTINGS-SHARED', 'group recomputation', gsite, found='no functional recomputation reached: not decided here (see GROUP-RECOMPUTE)', nontrivial=False)
        return
    if not from_members:
        rep.ok('SETTINGS-SHARED', 'group recomputation', gsite, found='the group lowers its own thresholds and hands them down: members need not share the dictionary')
        return
    rep.ok('SETTINGS-SHARED', 'group recomputation', gsite, found=f'each member lowers its own stored thresholds ({sorted(from_members)}): they must be the group\'s object')
    # (a) fit constructs members from self.thresholds itself (alias analysis: the object reaching the constructor's thresholds parameter)
    fsite = f'{fit_.path}:{fit_.node.lineno} BycycleGroup.fit'
    ctors = [(ln, bind) for ln, cls, bind in det[fit_.qual].ctor_calls if cls == BY]
    bad = [f'line {ln}: thresholds <- {sorted(map(str, bind.get("thresholds", {("default",)})))}' for ln, bind in ctors if ('Self', 'thresholds') not in bind.get('thresholds', set())]
    if not ctors:
        rep.ok('SETTINGS-SHARED', 'fit:members constructed from self.thresholds', fsite, found='no direct Bycycle(...) construction in fit: not decided here (see INDEX-AGREE)', nontrivial=False)
    elif bad:
        rep.violation('SETTINGS-SHARED', 'fit:members constructed from self.thresholds', fsite, expected='the group\'s own thresholds dictionary reaches the thresholds parameter of every member',
                      found='; '.join(bad) + ': the member holds a different dictionary, a later edit of the group thresholds does not reach it')
    else:
        rep.ok('SETTINGS-SHARED', 'fit:members constructed from self.thresholds', fsite, found=f'{len(ctors)} constructions receive self.thresholds itself')
    # (b) the constructor keeps the object it is given
    isite = f'{init.path}:{init.node.lineno} {init.qual.rsplit(".", 2)[-2]}.__init__'
    def held_by(fn, param, depth=0):
        """abstract objects self.thresholds holds after fn, in terms of the constructor's own parameter; follows super().__init__(...) when fn stores nothing itself"""
        env = det[fn.qual].env
        if 'self.thresholds' in env:
            return {('P', 'thresholds') if x == ('P', param) else x for x in env['self.thresholds']} if param != 'thresholds' else set(env['self.thresholds'])
        if depth > 4 or fn.cls is None:
            return set()
        rebound = any(isinstance(n, ast.Name) and n.id == param and isinstance(n.ctx, ast.Store) for n in ast.walk(fn.node))
        for c in ast.walk(fn.node):
            if isinstance(c, ast.Call) and isinstance(c.func, ast.Attribute) and c.func.attr == '__init__' and isinstance(c.func.value, ast.Call) and \
                    isinstance(c.func.value.func, ast.Name) and c.func.value.func.id == 'super':
                for b in model.bases(fn.cls):
                    up = model.lookup_method(b, '__init__')
                    if up is None:
                        continue
                    ups = [p for p in up.params if p != 'self']
                    passed = {ups[i]: a for i, a in enumerate(c.args) if i < len(ups)}
                    passed.update({k.arg: k.value for k in c.keywords if k.arg})
                    for up_param, a in passed.items():
                        if isinstance(a, ast.Name) and a.id == param and not rebound:
                            got = held_by(up, up_param, depth + 1)
                            return {('P', 'thresholds') if x == ('P', up_param) else x for x in got}
        return set()
    held = held_by(init, 'thresholds')
    if ('P', 'thresholds') in held:
        rep.ok('SETTINGS-SHARED', '__init__:stores the given dictionary', isite, found='self.thresholds is the caller\'s dictionary on the path where one is given')
    else:
        rep.violation('SETTINGS-SHARED', '__init__:stores the given dictionary', isite, expected='self.thresholds is the dictionary passed in (shared with the group that constructed the member)',
                      found=f'self.thresholds holds {sorted(map(str, held))}: a private copy; BycycleGroup.recompute_edges after a threshold edit on the group uses the thresholds of fit time')


def group_recompute(rep, model):
    """BycycleGroup.recompute_edges: every member is recomputed with the same reduction and the group's tables keep mirroring the members'"""
    rep.rule('GROUP-RECOMPUTE', 'BycycleGroup.recompute_edges(r) recomputes the model at every position ([i] / [i][j]) with THAT model\'s stored thresholds lowered by r, and afterwards '
                                'df_features at that position is that model\'s (recomputed) table: models keep mirroring df_features after an edge recomputation')
    g = model.funcs.get(f'{GRP}.recompute_edges')
    if g is None:
        rep.unresolved('GROUP-RECOMPUTE', 'method', '-', 'BycycleGroup.recompute_edges not found')
        return
    gsite = f'{g.path}:{g.node.lineno} BycycleGroup.recompute_edges'
    r = ('atom', 'r', 'num')
    for nd in (2, 3):
        ctx = new_ctx(model, (model.find('recompute_edges').qual,))       # the functional recomputation stays a call; the members' method is followed
        grp_obj = E.make_object(ctx, model, GRP, SETTINGS)

        # every member carries thresholds of its own (a member can be re-tuned through bg[i]): the group recomputation lowers each member's own
        mth = ('dict', tuple((k, ('param', 'member_' + v[1])) for k, v in TH[1]))

        def member(tag):
            o = E.make_object(ctx, model, BY, dict(SETTINGS, thresholds=mth))
            E.attrs(ctx, o).update(df_features=('atom', f'FITTED_{tag}', 'table'), sig=('atom', f'SIG_{tag}', 'arr'), fs=('param', 'fs'), f_range=('param', 'f_range'))
            return o
        if nd == 2:
            members = [member(f'{i}') for i in range(2)]
            models = ('list', tuple(members))
            tables = ('list', tuple(E.attrs(ctx, o)['df_features'] for o in members))
            sigs = ('list', tuple(E.attrs(ctx, o)['sig'] for o in members))
            flat = [((i,), o) for i, o in enumerate(members)]
        else:
            grid = [[member(f'{i}{j}') for j in range(3)] for i in range(2)]          # a non-square grid: the two extents cannot stand in for each other
            models = ('list', tuple(('list', tuple(row)) for row in grid))
            tables = ('list', tuple(('list', tuple(E.attrs(ctx, o)['df_features'] for o in row)) for row in grid))
            sigs = ('list', tuple(('list', tuple(E.attrs(ctx, o)['sig'] for o in row)) for row in grid))
            flat = [((i, j), grid[i][j]) for i in range(2) for j in range(3)]
        old = {pos: E.attrs(ctx, o)['df_features'] for pos, o in flat}
        E.attrs(ctx, grp_obj).update(models=models, df_features=tables, sigs=sigs, n_dims=C(nd), fs=('param', 'fs'), f_range=('param', 'f_range'))
        ctx.trace.clear()
        E.run(model, g.qual, {'self': grp_obj, 'reduction': r}, ctx=ctx)
        evs = [e for e in E.calls_to(ctx, 'recompute_edges') if e['kind'] == 'pkgcall' and '.objs.' not in e['name']]
        rc = model.find('recompute_edges')
        want_tk = ('dict', tuple(sorted((k, T.sub(v, r) if k.endswith('threshold') else v) for k, v in mth[1])))
        got_tables = E.attrs(ctx, grp_obj).get('df_features')
        problems = []
        if len(evs) != len(flat):
            problems.append(f'{len(evs)} functional recomputations for {len(flat)} members')
        for pos, o in flat:
            new = E.attrs(ctx, o)['df_features']
            ev = [e for e in evs if e['bound'].get(rc.params[0]) == old[pos]]
            if len(ev) != 1 or ev[0]['bound'].get(rc.params[1]) != want_tk or new != ev[0]['result']:
                problems.append(f'member {list(pos)}: not recomputed once with thresholds - r')
                continue
            cell = got_tables
            for p in pos:
                cell = lookup(cell, p)
            if cell != new:
                problems.append(f'df_features{list(pos)} is {T.brief(cell, 60) if cell else None}, the member holds {T.brief(new, 60)}')
        if problems:
            rep.violation('GROUP-RECOMPUTE', f'{nd}-D', gsite, expected='every member recomputed with thresholds - r; df_features[pos] is models[pos].df_features afterwards',
                          found='; '.join(problems[:3]))
        else:
            rep.ok('GROUP-RECOMPUTE', f'{nd}-D', gsite, found=f'{len(flat)} members recomputed; group tables refreshed')
