"""Per-property claims for MANIFEST.json (tools/gen_manifest.py turns this into the file)."""

NOTES = ('Static analysis only. Every check parses /repo\'s working tree with ast, builds symbolic normal forms / effect summaries / '
         'decision tables and compares them with oracle tables transcribed from the property statements (sa/refspec, sa/rules). '
         'bycycle is never imported, executed or handed to a solver. Exit 0 = all rule instances discharged; exit 1 + VIOLATION = an '
         'understood construct contradicts a rule; exit 2 + ANALYSIS-ERROR = anchor vanished / unmodelled construct (never a silent pass).')

CHECKS = {
    'C04': dict(
        technique='symbolic normal-form equality (partial evaluation + value numbering over ast) of each output column against reference definitions',
        text='Decides the property itself modulo trusted numpy/pandas semantics: for both centrings every shape column of '
             'compute_shape_features is proved (normal-form equality, for all inputs) to be the documented function of the returned '
             'cyclepoint columns and the original signal; column set checked. Not decided: strict (0,1) range of time_rdsym (value-level).',
        note='Trusted: python ast; model entries for pandas column arithmetic, fancy indexing, np.mean/np.append, amp_by_time(-x)=amp_by_time(x); '
             'the reference definitions in sa/refspec/shape.py; find_extrema/find_zerox abstracted as arrays (their contract is C01-C03).'),
}

NOT_APPLICABLE = {}
