"""Per-property claims for MANIFEST.json (tools/gen_manifest.py turns this into the file)."""

NOTES = ('Static analysis only. Every check parses /repo\'s working tree with ast, builds symbolic normal forms / effect summaries / '
         'decision tables and compares them with oracle tables transcribed from the property statements (sa/refspec, sa/rules). '
         'bycycle is never imported, executed or handed to a solver. Exit 0 = all rule instances discharged; exit 1 + VIOLATION = an '
         'understood construct contradicts a rule; exit 2 + ANALYSIS-ERROR = anchor vanished / unmodelled construct (never a silent pass).')

CHECKS = {
    'C04': dict(
        technique='symbolic normal-form equality (partial evaluation + value numbering over ast) of each output column against reference definitions',
        text='Decides the property itself modulo trusted numpy/pandas semantics: for both centrings every shape column of '
             'compute_shape_features is proved (normal-form equality, for all inputs) to be the documented function of the returned '
             'cyclepoint columns and the original signal; column set checked. Not decided: strict (0,1) range of time_rdsym (value-level).',
        note='Trusted: python ast; model entries for pandas column arithmetic, fancy indexing, np.mean/np.append, amp_by_time(-x)=amp_by_time(x); '
             'the reference definitions in sa/refspec/shape.py; find_extrema/find_zerox abstracted as arrays (their contract is C01-C03).'),
}

NOT_APPLICABLE = {}

CHECKS['C05'] = dict(
    technique='symbolic normal-form equality of loop-built arrays (guarded element-wise stores) against reference definitions, per centring x direction scenario',
    text='Decides the definitional part of the property for all inputs: amp_fraction, amp_consistency (2 centrings x 3 directions), '
         'period_consistency (3 directions) and monotonicity (2 centrings) have the same normal form as the documented definitions, and '
         'compute_burst_features wires them to their columns. Not decided: the [0,1] range claim (value-level consequence of the definitions).',
    note='Trusted: numpy min/max/nanmin/mean/diff and pandas rank semantics (model table); reference definitions in sa/refspec/burst.py; '
         'identity nanmin(all-NaN)=NaN used to drop the redundant all-NaN guard.')

CHECKS['C06'] = dict(
    technique='symbolic normal-form equality of the labelling with the threshold-and-run reference + call-trace routing rules under dictionary scenarios',
    text='Decides the statement modulo the C08 schema argument and numpy/pandas comparison semantics: is_burst of detect_bursts_cycles has the normal '
         'form of runfilter(AND of four strict column>threshold tests, ends forced False, min_n_cycles); other columns untouched; compute_features routes every '
         'threshold key to the same-named detector parameter and returns the labelled table; default/shorthand threshold keys fit the detector. '
         'Monotonicity in the thresholds follows by the hand argument recorded in the evidence.',
    note='Trusted: reference labelling in sa/refspec/burst.py; run-filter schema hand argument; element-wise > on columns with NaN -> False.')
CHECKS['C07'] = dict(
    technique='symbolic normal-form equality (16 option scenarios) + call-trace value agreement at two sinks under key-presence scenarios + signature binding against installed neurodsp source',
    text='burst_fraction equals the mean of the sample-wise mask over [last side, next side] inclusive for both centrings, with/without duration and '
         'filter options; detect_bursts_amp is the run filter of fraction >= threshold; for all 12 presence patterns of min_n_cycles the sample-wise detector and '
         'the run filter receive the same value with precedence burst options > thresholds > 3; the detector call binds against the installed signature. '
         'Not decided: the behaviour of neurodsp\'s sample-wise detector itself.',
    note='Trusted: neurodsp detect_bursts_dual_threshold (only its signature is read); reference definitions in sa/refspec/burst.py.')
CHECKS['C08'] = dict(
    technique='schema conformance by symbolic normal-form equality with a reference run filter + store-value query on the array term',
    text='check_min_burst_cycles is shown to be an instance of the run-filter schema (padded diff, even/odd transitions, strict duration test, slice '
         'clearing with the constant False on the input array, same array returned); the schema\'s properties (exact removal of short runs, no new True, '
         'idempotence, end runs) follow from the hand argument in DESIGN.md. Non-ndarray input is rejected.',
    note='Trusted: hand argument for the schema; np.diff(prepend/append), np.flatnonzero, slice assignment semantics.')

CHECKS['C09'] = dict(
    technique='relational symbolic check: normal form of the trough-centred run equals the mirror transformation of the peak-centred run on the negated signal (shape table), and feature-by-feature on mirrored abstract tables',
    text='For all inputs, compute_shape_features(sig, trough) is column-for-column the mirror image (names swapped, extremum voltages negated, symmetry '
         '1-x) of compute_shape_features(-sig, peak); every burst feature on a trough table equals the same feature on its peak-centred mirror image with the '
         'negated signal; labelling reads only burst features; the burst features receive the un-negated signal. Not decided: bit-level identity of filtering -x vs x.',
    note='Trusted: oddness/evenness model entries (filter, amp_by_time, dual threshold mask); find_extrema/find_zerox abstracted identically in both runs.')

CHECKS['C14'] = dict(
    technique='symbolic evaluation of the class methods on a modelled heap object (argument-name binding, stored-result equality, index agreement) + closed effect summaries over self attributes',
    text='Reduces "fit equals compute_features for every history" to structure that is decided for all histories: fit makes exactly one compute_features call whose '
         'nine arguments are the stored settings / call arguments bound by name, no previous result or fitted state reaches it, only result attributes are assigned and no '
         'method writes through a stored option object or an argument; reduce_thresholds / recompute_edges / __getattr__ / load / plot have their documented normal '
         'forms; group models are loaded from the same position of df_features and sigs into distinct rows. Table values are not compared.',
    note='Trusted: purity of compute_features (decided by C15); python attribute semantics; the binding oracle of DESIGN.md A.6.')
CHECKS['C15'] = dict(
    technique='flow-sensitive alias/effect analysis with type-guard refinement and per-function summaries closed over the resolved call graph (fixpoint); who-may-write rules',
    text='For all call histories: the closed effect summary of each of the 27 claimed public functions contains no write through any parameter (stores, del, '
         'augmented assignment, mutators, inplace=True, callee effects incl. **dict expansion); package-wide no write to read-only pandas views, no lost chained '
         'store, no module-level or shared-default state, no caching decorator, no RNG/clock except the documented plot jitter. Embedded positive examples must fire on every run.',
    note='Trusted: model of which numpy/pandas operations return fresh objects / views / read-only views under pandas>=3 copy-on-write; external callees do not '
         'write their inputs; docstring/naming-derived kinds for parameters.')
CHECKS['C16'] = dict(
    technique='schema conformance by symbolic normal-form equality with reference edge code + write-set query + effect summaries (copy-first, no lost update, no read-only write)',
    text='recompute_edges is shown to copy first, locate edges from is_burst transitions (even -> cycle before looks "next", odd -> cycle after looks "last"), edit exactly the '
         'two consistency cells of each edge row with element 1 of the 3-row directional consistency, and return detect_bursts_cycles of the edited table with the given '
         'thresholds; one-sided consistency definitions checked for both centrings; no chained (lost) store. Not decided: "bursts only grow" as a value statement.',
    note='Trusted: reference in sa/refspec/edges.py; DataFrame.iloc store / copy semantics; C05 definitions.')

CHECKS['C19'] = dict(
    technique='decision-table extraction by constant-folding the branch structure over an exhaustive abstract grid; must-pass-through (unconditional, first-use) check queries on the call trace; option-chain exhaustiveness by scenario evaluation',
    text='Exhaustive over the documented grid: every cell (2-D/3-D arrays with extents 1-3, eight axis values, option arguments None/dict/1-D/2-D/3-D with extents 1-4) of '
         'check_kwargs_shape folds to accept / ValueError exactly as documented, and both group functions call it first and unconditionally; each of the 19 validated '
         '(function, parameter) pairs has an unconditional check_param_range with the documented bounds before any other use; relational checks on amp_threshes and '
         'start/stop; direction options; every option chain rejects undocumented values with ValueError and accepts documented ones; dimensionality / fitted-state / override / '
         'required-key / type / label-count guards; every raise is a ValueError.',
    note='Trusted: neurodsp check_param_range / check_param_options summaries (source read); exceptions raised inside dependencies (e.g. fs == 0) are out of scope.')

CHECKS['C13'] = dict(
    technique='schema conformance of the epoch partition by symbolic normal-form equality + scenario reachability of detector calls (shared vs per-epoch options) on the call trace',
    text='epoch_df is shown (both centrings) to be the half-open (k*L, (k+1)*L] selection on the closing side extremum with every sample column shifted by k*L; '
         'compute_features_2d(axis=None) analyses the flattened array once with the first option set; with None / one dictionary no detector can run on an epoch table and '
         'the epoched flat analysis is returned; with a list, epoch k is re-labelled by the detector of option set k with its thresholds; detectors are total on empty epochs. '
         'The partition property itself follows from the hand argument recorded in the evidence.',
    note='Trusted: reference in sa/refspec/frames.py; iloc row selection keeps order; hand argument for half-open intervals.')

CHECKS['C11'] = dict(
    technique='who-may-call / ordered-map rule on the resolved pool primitive per option x progress scenario, producer-consumer argument-shape agreement (zip vs proxy), taint of n_jobs/progress on the call trace, effect summaries',
    text='For every schedule: result order is fixed by the pool primitive and the collection idiom, both decided here for all nine options x progress scenarios (imap + '
         'list(...) through an order-preserving progress wrapper); rows and per-row options are zipped in order and the proxy unpacks them in the same order; shared options '
         'reach compute_features unchanged except return_samples, which is overridden by the function\'s own; n_jobs only sizes the pool and progress only selects the bar; '
         'no argument is written through, no module-level state exists for workers to share; BycycleGroup models agree position by position. Pickling fidelity and OS scheduling are trusted.',
    note='Trusted: multiprocessing.Pool.imap/map/starmap ordering (stdlib docs); tqdm iterates its iterable in order.')

CHECKS['C12'] = dict(
    technique='affine index agreement on the symbolic read-back store (coefficient of the outer loop variable == inner extent), C-order flatten agreement, ordered-map and swap/unswap guard agreement on the call trace, decision table for 3-D option shapes',
    text='For every shape (n0, n1) symbolically: with axis=(0,1) signals and 2-D option lists are flattened in the same C order, delegated to the 2-D function and entry [i][j] reads '
         'flat index i*n1 + j into a container with distinct rows; with axis 0/1 the slices of sigs / swapaxes(sigs,0,1) are zipped in order with their options (a shared set '
         'replicated once per iterated slice), mapped with an order-preserving primitive, analysed by compute_features_2d(axis=None), and transposed back exactly for axis 1; '
         'n_jobs/progress do not interfere; BycycleGroup models agree [i][j]; invalid option-list shapes are rejected (decision table).',
    note='Trusted: C-order semantics of ndarray.reshape / flatten, np.swapaxes, zip(*rows); C11 for the delegated 2-D call.')

CHECKS['C18'] = dict(
    technique='symbolic normal-form equality with reference selections over 20 option scenarios; schema conformance of column reads per centring; literal-list evaluation of label assignment order; nullness of optional limits at comparison sinks',
    text='For all tables: limit_df (2 centrings x start/stop given or omitted x reset_indices) and limit_signal (4 scenarios) have the normal form of the documented selections, '
         'with every sample column shifted by the same int(fs*start); None limits never reach a comparison; only columns of the table\'s centring are read; drop/split partition '
         'columns exactly by the sample_ prefix without touching values; flatten_dfs labels table k with label k in concatenation order, including non-square 2-D lists. '
         'Not decided: float rounding of start*fs.',
    note='Trusted: reference in sa/refspec/frames.py; pandas boolean-mask selection keeps order; drop/pop/concat keep values.')

CHECKS['C20'] = dict(
    technique='symbolic evaluation of the plotting functions up to the drawing primitives; the argument terms recorded on the call trace are compared (normal-form equality) with reference data built from the C18-decided window functions',
    text='Decides which data reach the drawing primitives, for both centrings, with and without x-limits, plot_only_result and interp settings: the highlighted mask is exactly '
         '[last side, next side] of is_burst cycles of the windowed table, offset by the first plotted sample; each parameter panel receives the column and threshold of its own key, '
         'the windowed table and its own axes; panel x/y are the centre-extremum times / values of the cycles in the window plus the threshold line; every marker series is '
         '(times[cps], sig[cps]) through one index term in the order peaks, troughs, rises, decays; no column outside the table\'s centring is read. '
         'Nothing about rendered artists or float rounding of the view selection is decided.',
    note='Trusted: matplotlib / neurodsp plot_time_series / plot_bursts render what they are given; limit_df / limit_signal as decided by C18.')

CHECKS['C17'] = dict(
    technique='schema conformance by symbolic normal-form equality with a reference (anchor table, interpolation wiring, branch merge, span mask) + ordered-store query on the anchor arrays + negative-coefficient slice-bound lint',
    text='Decides the structural clauses only: the anchor table and overwrite order (midpoints -pi/2, +pi/2 first; then peaks 0, troughs +pi / -pi), the wiring of both branches into '
         'np.interp over all sample times, the merge rule (+pi branch exactly where the -pi branch decreases), the span mask located by the first / last non-constant step and '
         'sliced from the front (no negative-index wrap-around). Range, monotonicity between anchors and finiteness inside the span are value-level and not decided.',
    note='Trusted: np.interp semantics (linear, constant outside the anchors); reference in sa/refspec/phase.py.')

CHECKS['C01'] = dict(
    technique='symbolic normal-form equality of the row assembly (shifted slices of one array => tiling), dictionary key-presence scenarios at an either/or callee precondition, package-wide call-signature binding, effect analysis for read-only writes',
    text='Decides named structural necessary conditions, not the behaviour: (a) the three structural reasons for which the call would raise for every input are absent '
         '(no write to a read-only pandas view in the pipeline, never both n_cycles and n_seconds to compute_filter_length in any key-presence scenario, all resolved '
         'calls bind, including into installed neurodsp); (b) rows are assembled as offset-0 / offset-1 slices of one array so consecutive rows share their side extremum, '
         'centre and midpoints are the ones between them under the fixed peak-first pairing, which callers cannot override; (c) midpoints come from the inclusive '
         'flank window only, indices refer to the un-padded input and the boundary filter is strict on both sides. Existence of crossings, strict ordering and alternation '
         'for arbitrary signals, and data-dependent exceptions are value-level and NOT decided.',
    note='Trusted: neurodsp signatures as installed; C02/C03 reference loops for the extremum / midpoint search.')
CHECKS['C02'] = dict(
    technique='schema conformance by symbolic normal-form equality with reference scan loops (24 option scenarios) + provenance / polarity / sibling-symmetry / pad-agreement / boundary queries on the extracted terms',
    text='find_extrema is shown to be an instance of the reference search for every first_extrema x pad x filter-option scenario; independently of loop structure the '
         'arg-extrema operands are slices of the raw (padded) parameter and never of the filtered signal, peaks use argmax over rise..next decay and troughs argmin over '
         'decay..next rise with the trough loop the mirror image of the peak loop, the offset removed equals the pad width (0 without padding), the boundary test is strict on both '
         'sides on the original length, and the crossing rule of find_flank_zerox is pinned (<= / > tie convention). Correctness of the scan as an algorithm is only conformance.',
    note='Trusted: np.argmax/argmin first-occurrence; neurodsp filter_signal / compute_filter_length; reference in sa/refspec/cyclepoints.py.')
CHECKS['C03'] = dict(
    technique='schema conformance by symbolic normal-form equality with reference midpoint code + window / level / inverted-flank comparator queries on the extracted terms and call trace',
    text='_find_flank_midpoints and find_zerox equal the reference (counts and index bias from which extremum comes first; rises trough->peak, decays peak->trough); the window is '
         'the inclusive [start, end] slice, every stored midpoint is start + an offset from that window only, the level is (first+last)/2 of the same window and flank, the '
         'fallback comparator is > for a rise and < for a decay, and the crossing rule is pinned. That the stored sample is the median crossing for a concrete signal is numpy semantics, not decided.',
    note='Trusted: np.median, np.sum, np.abs; reference in sa/refspec/cyclepoints.py.')

CHECKS['C10'] = dict(
    technique='unit (dimension) inference over the symbolic normal forms of the whole pipeline, with unit signatures for the neurodsp callees; absolute-level lint; effect summaries for state leaking between calls',
    text='Decides the structural part of covariance: every output column has the unit the statement requires (samples for times and indices, signal amplitude for '
         'voltages and band_amp, dimensionless for fractions, symmetries, consistencies and labels), every sum / comparison / alternative combines terms of one unit, no V-valued '
         'term meets a non-zero literal or an absolute tolerance, fs and f_range reach neurodsp only in parameters of their own unit, and no option dictionary is written '
         '(so no absolute length survives a call). Embedded positive examples (period/fs, volt > 0.1, allclose(sig, 0), volt + samples) must fire on every run. '
         'Exact floating-point commutation with scale factors and the scale behaviour inside neurodsp are not decided.',
    note='Trusted: unit seeds taken from the docstrings; unit signatures of filter_signal / amp_by_time / detect_bursts_dual_threshold / compute_filter_length.')


# ---------------------------------------------------------------------------------------------- rules added in later rounds
_ADDED = {
    'C01': ' Also decided: the user\'s filter-length key reaches find_extrema alone and unchanged through compute_features and Bycycle.fit (OPT-FORWARD); the peak and trough '
           'search windows of find_extrema share their boundaries (WINDOW-TILING); every reduction over a set of crossing positions in the midpoint search sits behind a fallback or an emptiness test, so a flank without a crossing still gets a midpoint instead of an exception (CROSSING-TOTAL).',
    'C02': ' Also decided: find_extrema / find_flank_zerox write through none of their arguments (ARGS-INTACT).',
    'C03': ' Also decided: find_zerox (closed over its helpers) writes through none of its arguments (ARGS-INTACT).',
    'C04': ' Also decided: the pipeline leaves the band-amplitude filter at its documented three cycles (BAND-WIRING) and the table utilities never write through a returned table (TABLE-INTACT); rename_extrema_df called on its own performs the documented swap / negation / 1-x conversion with and without sample columns (RENAME-DEF).',
    'C09': ' Also decided: return_samples changes no argument of any feature / label computation (RS-LATE).',
    'C10': ' Unit signatures follow the positional normal form of neurodsp calls; rounding or quantising a V-valued term counts as an absolute level.',
    'C12': ' Also decided: the number of epoch tables is a function of (sig_len, epoch_len) alone, so the second dimension of the nested list does not depend on the data (EPOCH-COUNT); Bycycle.load rejects no table epoch_df can produce (LOAD-ACCEPTS: a sample bound must not fire at sample == len(sig)).',
    'C13': ' Also decided: the per-epoch option list is consumed on a deep copy (COPY-FIRST) and read without pop, because deepcopy keeps list positions that name one dict as one object (EPOCH-OWN-OPTIONS).',
    'C14': ' Also decided: constructor defaults equal compute_features defaults (DEFAULT-AGREE); BycycleGroup.recompute_edges recomputes every member and refreshes the group tables (GROUP-RECOMPUTE); the members a group lowers thresholds on hold the group\'s own thresholds dictionary, so an edit after a fit reaches them (SETTINGS-SHARED); a method that returns early leaves the stored state as it was on that path (heap stores after an early return are conditional), so a skipped recomputation shows in RECOMPUTE.',
    'C15': ' Also decided: no result is collected in worker-completion order (NO-SCHEDULE: imap_unordered / as_completed, called or merely referenced).',
    'C16': ' Also decided: the object front end lowers the stored thresholds by r on every call without writing them back (OBJ-RECOMPUTE). Known finding (keyed, not repaired): on a peak-centred table '
           'without sample_ columns the edge values pair the flanks of the other centring (CENTRE-KNOWN).',
    'C18': ' Limits are compared in seconds (sample / fs) and offsets are rounded, not truncated (LIMIT-DEF, GRID-ROUND).',
    'C19': ' Also decided: the value given to the unvalidated sample-wise detector is the range-checked one (CHECKED-FLOW); progress and per-epoch burst_method are validated on every axis branch (OPTION-REACH).',
    'C20': ' Also decided: one time per sample (TIME-AXIS), rounded time-to-sample conversions (GRID-ROUND), guarded indices at the closing limit (WINDOW-END), exact per-cycle steps in step mode.',
}
for _k, _v in _ADDED.items():
    CHECKS[_k]['text'] = CHECKS[_k]['text'] + _v
for _k in ('C01', 'C04', 'C05', 'C06', 'C07', 'C09', 'C10'):
    CHECKS[_k]['text'] = CHECKS[_k]['text'] + (' Shared clause FRONT-END: Bycycle.fit, entered in an arbitrary earlier state, is exactly one unconditional compute_features call with the stored '
                                               'settings, so the property carries over to Bycycle.df_features (no refit shortcut or cached table).')
for _k in ('C01', 'C02', 'C03', 'C04', 'C05', 'C06', 'C07', 'C08', 'C09', 'C10', 'C16', 'C17', 'C18', 'C20'):
    CHECKS[_k]['text'] = CHECKS[_k]['text'] + ' Shared clause NO-HISTORY: no function reachable from the entry points writes module-level state (caches, edited constants).'
CHECKS['C01']['text'] = CHECKS['C01']['text'] + ' PY-DIVISION: no division by a python scalar taken out of an array on the analysis path (ZeroDivisionError instead of nan for flat cycles); WINDOW-TILING also decides the number of closed half-waves searched.'
CHECKS['C02']['text'] = CHECKS['C02']['text'] + ' SAMPLE-NEG: the extremum search never negates raw sample values (integer wrap at the rails).'
CHECKS['C10']['text'] = CHECKS['C10']['text'] + ' SAMPLE-PRODUCT: no product of two raw sample values on the analysis path (overflow of narrow integer recordings under scaling); EXT-UNITS: only callees with a unit signature in the model table receive fs / f_range / durations; quantising a seconds- or Hz-valued term is an absolute level.'
CHECKS['C15']['text'] = CHECKS['C15']['text'] + ' NO-UNINIT: no uninitialised buffers (np.empty / empty_like).'
CHECKS['C14']['text'] = CHECKS['C14']['text'] + ' DEFAULTS-FRESH: no settings attribute is, or is part of, a module-level object; GROUP-RECOMPUTE expects each member recomputed with its own stored thresholds.'
CHECKS['C03']['text'] = CHECKS['C03']['text'] + ' SAMPLE-DIFF: the midpoint search forms no difference of two raw sample values (wrap-around for unsigned integer recordings).'
# deciding methods added with the shared clauses and lints (the technique field names every method a verdict can come from)
for _k in ('C01', 'C04', 'C05', 'C06', 'C07', 'C09', 'C10', 'C19'):
    CHECKS[_k]['technique'] += '; symbolic evaluation of Bycycle.fit on a heap object in an unknown earlier state (unconditional-delegation rule)'
for _k in ('C01', 'C02', 'C03', 'C04', 'C05', 'C06', 'C07', 'C08', 'C09', 'C10', 'C11', 'C12', 'C13', 'C14', 'C16', 'C17', 'C18', 'C19', 'C20'):
    CHECKS[_k]['technique'] += '; who-may-write rule for module-level state over the call-graph closure of the entry points (effect summaries)'
for _k, _t in (('C01', 'forward-taint lint for python-scalar division'), ('C02', 'forward-taint lint for negated sample values'), ('C03', 'forward-taint lint for sample differences'),
               ('C10', 'forward-taint lint for sample products; who-may-receive rule for dimensional arguments of external callees'),
               ('C14', 'alias analysis of what settings attributes hold and of constructor arguments'), ('C15', 'who-may-call lints for completion-order primitives and uninitialised buffers')):
    CHECKS[_k]['technique'] += '; ' + _t
for _k in ('C06', 'C12', 'C13', 'C14', 'C16', 'C17', 'C19'):
    CHECKS[_k]['technique'] += '; rules borrowed from the property that anchors a function this one depends on (sa/check.py:BORROWED)'
CHECKS['C01']['text'] = CHECKS['C01']['text'] + ' NEVER-COPY: no np.array / np.asarray with copy=False on the analysis path (installed numpy major version consulted: >= 2 raises whenever a conversion is needed).'
CHECKS['C09']['text'] = CHECKS['C09']['text'] + ' OPTIONS-STABLE: compute_features writes through none of its arguments, nested option dictionaries reached through shallow copies included (both analyses of a mirror pair receive the same option objects).'
CHECKS['C14']['text'] = CHECKS['C14']['text'] + ' Borrowed from C16: the functional edge recomputation the object is measured against is the documented one (EDGE-DEF, EDGES-DEF).'
for _k in ('C01', 'C02', 'C03', 'C04', 'C05', 'C06', 'C07', 'C08', 'C09', 'C10', 'C11', 'C12', 'C13', 'C14', 'C16', 'C17', 'C18', 'C19', 'C20'):
    CHECKS[_k]['text'] = CHECKS[_k]['text'] + ' Shared clause VALUE-IDENTITY: no function reachable from the entry points compares a string / number / tuple value with `is`.'
    CHECKS[_k]['technique'] += '; syntax-tree lint for identity comparison against value literals and module constants (resolved through imports)'
CHECKS['C03']['text'] = CHECKS['C03']['text'] + ' INDEX-DTYPE: the midpoint arrays are integer arrays for every flank count (no returned np.array of a run-time list without an integer dtype).'
CHECKS['C03']['technique'] += '; syntax-tree lint for untyped index arrays'
CHECKS['C01']['text'] = CHECKS['C01']['text'] + ' Borrowed from C03: MID-DEF, ZEROX-DEF, INDEX-DTYPE (the midpoints of every row are the arrays find_zerox returns).'
CHECKS['C01']['technique'] += '; rules borrowed from the property that anchors a function this one depends on (sa/check.py:BORROWED)'
for _k in ('C11', 'C12', 'C14'):
    CHECKS[_k]['text'] = CHECKS[_k]['text'] + ' INDEX-AGREE also requires one model object per position (the stored Bycycle is constructed inside the loop nest that stores it).'
CHECKS['C10']['text'] = CHECKS['C10']['text'] + ' OPTIONS-STABLE covers find_extrema_kwargs, filter_kwargs, burst_kwargs (which carries fs / f_range for the amplitude method) and threshold_kwargs.'
CHECKS['C13']['text'] = CHECKS['C13']['text'] + ' EMPTY-EPOCH is decided on the label term specialised to an empty table (nrows := 0): no constant-index store may remain.'
CHECKS['C19']['text'] = CHECKS['C19']['text'] + ' OPTION-REACH places the invalid per-epoch entry last and in the middle of the list.'
CHECKS['C08']['text'] = CHECKS['C08']['text'] + ' RAISES: with an array argument the function raises only through the documented range check of min_n_cycles.'
CHECKS['C08']['technique'] += '; raise-condition query on the symbolic run (every recorded raise condition is the documented range check)'
CHECKS['C01']['text'] = CHECKS['C01']['text'] + ' Borrowed from C08: RAISES (the run filter both detectors end in raises only through the documented range check).'
CHECKS['C19']['text'] = CHECKS['C19']['text'] + ' Borrowed from C14: REDUCE (what recompute_edges validates is the stored threshold minus r, unclipped).'
CHECKS['C01']['technique'] += '; version-keyed API lint (np.array copy=False)'
CHECKS['C09']['technique'] += '; closed effect summary with depth tracking through shallow copies'
for _k in CHECKS:
    CHECKS[_k]['text'] = CHECKS[_k]['text'] + ' Every path the rules evaluate must also be free of exactly modelled Python errors (NO-PYERROR); where the anchored entry points document a default, the signature default equals it (DOC-DEFAULT).'
