"""Call handling for the symbolic evaluator: inlining of intra-package callees, models of the numpy /
pandas / stdlib operations the repository uses, uninterpreted terms (plus a trace event) for the rest."""
import ast
from . import terms as T
from .terms import C, NONE, TRUE, FALSE
from . import symeval as SE

NP_DIRECT = {'diff', 'mean', 'sum', 'median', 'argmax', 'argmin', 'isnan', 'flatnonzero', 'abs', 'ceil', 'floor',
             'interp', 'unique', 'pad', 'swapaxes', 'arange', 'nanmean', 'cumsum', 'sort', 'sign', 'round', 'sqrt',
             'minimum', 'maximum', 'nanmedian', 'clip', 'isfinite', 'concatenate', 'searchsorted', 'prod', 'std', 'var',
             'full', 'empty', 'zeros_like', 'ones_like', 'linspace', 'argsort', 'roll', 'trunc', 'rint', 'asarray_chkfinite',
             'digitize', 'count_nonzero', 'ptp', 'percentile', 'histogram', 'isclose', 'allclose', 'array_equal',
             'hstack', 'vstack', 'stack', 'repeat', 'tile', 'take', 'nanargmax', 'nanargmin', 'amax', 'amin', 'nansum'}
VALUE_PRESERVING_METHODS = {'copy', 'to_numpy', 'to_list_keep', 'squeeze', 'ravel_keep', 'reset_index'}


def kwargs_of(frame, n):
    kw = {}
    extra = []
    for k in n.keywords:
        v = frame.ex(k.value)
        if k.arg is None:
            if v[0] == 'dict':
                for kk, vv in v[1]:
                    if isinstance(kk, str):
                        if kk in kw:
                            frame.ctx.event("duplicate-keyword", kk, (kw[kk], vv), guard=frame.guard(), loops=frame.loops, where=frame.where(n))
                            frame.ctx.raises.append(('TypeError', frame.guard(), frame.where(n), 'implicit'))
                            raise SE.RaisedInCallee(f'got multiple values for keyword argument {kk!r}')
                        kw[kk] = vv
                    else:
                        extra.append(vv)
            elif v == NONE:
                frame.ctx.raises.append(('TypeError', frame.guard(), frame.where(n), 'implicit'))
                frame.ctx.event('typeerror', '** of None', guard=frame.guard(), where=frame.where(n))
                raise SE.RaisedInCallee('argument after ** must be a mapping, not NoneType')
            else:
                extra.append(v)
        else:
            kw[k.arg] = v
    return kw, extra


def args_of(frame, n):
    out = []
    for a in n.args:
        v = frame.ex(a)
        if v[0] == 'starred':
            if v[1][0] in ('tuple', 'list'):
                out.extend(v[1][1])
            else:
                out.append(('starargs', v[1]))
        else:
            out.append(v)
    return out


def do_call(fr, n):
    f = n.func
    ctx = fr.ctx
    # ---- plain names
    if isinstance(f, ast.Name):
        name = f.id
        if name in fr.env:
            fv = fr.env[name]
            args = args_of(fr, n)
            kw, extra = kwargs_of(fr, n)
            return call_value(fr, fv, args, kw, extra, n)
        r = ctx.model.resolve(fr.mod, name)
        if isinstance(r, str):
            args = args_of(fr, n)
            kw, extra = kwargs_of(fr, n)
            if r in ctx.model.funcs:
                return call_function(fr, r, args, kw, extra, n)
            return construct(fr, r, args, kw, extra, n)
        if isinstance(r, tuple) and r[0] == 'ext':
            args = args_of(fr, n)
            kw, extra = kwargs_of(fr, n)
            q = ctx.foreign(r[1])
            if q is not None:
                return call_function(fr, q, args, kw, extra, n)
            return external(fr, r[1], args, kw, extra, n)
        return builtin(fr, name, n)
    if isinstance(f, ast.Attribute) and isinstance(f.value, ast.Name) and f.value.id == 'dict' and f.attr == 'fromkeys' and 'dict' not in fr.env:
        args = args_of(fr, n)
        keys = T.strip_nd(args[0]) if args else None
        if keys is not None and keys[0] in ('list', 'tuple') and all(T.isconst(k_) for k_ in keys[1]) and len(args) <= 2:
            val = args[1] if len(args) == 2 else NONE          # dict.fromkeys(keys[, value]): every key maps to the same value (None by default)
            return ('dict', tuple(sorted(((k_[1], val) for k_ in keys[1]), key=lambda kv: repr(kv[0]))))
    # ---- attribute calls
    if isinstance(f, ast.Attribute):
        # super().__init__(...)
        if isinstance(f.value, ast.Call) and isinstance(f.value.func, ast.Name) and f.value.func.id == 'super':
            args = args_of(fr, n)
            kw, extra = kwargs_of(fr, n)
            cls = fr.fn.cls
            for b in ctx.model.bases(cls) if cls else []:
                m = ctx.model.lookup_method(b, f.attr)
                if m is not None:
                    return call_function(fr, m.qual, [fr.env.get('self')] + args, kw, extra, n, nself=1)
            return ('opaque', 'super call')
        recv_node = f.value
        # module-qualified: np.xxx, pd.xxx, warnings.warn ...
        if isinstance(recv_node, ast.Name) and recv_node.id not in fr.env:
            r = ctx.model.resolve(fr.mod, recv_node.id)
            if isinstance(r, tuple) and r[0] == 'ext':
                args = args_of(fr, n)
                kw, extra = kwargs_of(fr, n)
                return external(fr, f'{r[1]}.{f.attr}', args, kw, extra, n)
            if isinstance(r, tuple) and r[0] == 'mod':
                rr = ctx.model.resolve(r[1], f.attr)
                args = args_of(fr, n)
                kw, extra = kwargs_of(fr, n)
                if isinstance(rr, str) and rr in ctx.model.funcs:
                    return call_function(fr, rr, args, kw, extra, n)
        recv = fr.ex(recv_node)
        args = args_of(fr, n)
        kw, extra = kwargs_of(fr, n)
        if recv[0] == 'extref':
            return external(fr, f'{recv[1]}.{f.attr}', args, kw, extra, n)
        return method(fr, recv, recv_node, f.attr, args, kw, extra, n)
    fv = fr.ex(f)
    args = args_of(fr, n)
    kw, extra = kwargs_of(fr, n)
    return call_value(fr, fv, args, kw, extra, n)


# ---------------------------------------------------------------------------------------------- dispatch on values
def call_value(fr, fv, args, kw, extra, n):
    if fv[0] == 'funcref':
        return call_function(fr, fv[1], args, kw, extra, n)
    if fv[0] == 'classref':
        return construct(fr, fv[1], args, kw, extra, n)
    if fv[0] == 'extref':
        return external(fr, fv[1], args, kw, extra, n)
    if fv[0] == 'partial':
        a2 = list(fv[2]) + list(args)
        k2 = dict(fv[3])
        k2.update(kw)
        return call_value(fr, fv[1], a2, k2, list(fv[4]) + list(extra), n)
    if fv[0] == 'boundmethod':
        if 'staticmethod' in ctx_decorators(fr, fv[2]):
            return call_function(fr, fv[2], list(args), kw, extra, n)
        return call_function(fr, fv[2], [fv[1]] + list(args), kw, extra, n, nself=1)
    if fv[0] == 'gamma':
        a = call_value(fr, fv[2], args, kw, extra, n)
        b = call_value(fr, fv[3], args, kw, extra, n)
        return T.gamma(fv[1], a, b)
    if fv[0] == 'attrgetter' and len(args) == 1 and not kw:
        # operator.attrgetter('a', 'b')(obj) is (obj.a, obj.b)  (the attribute itself for a single name)
        vals = [builtin_value(fr, 'getattr', [args[0], C(nm)], {}, n) for nm in fv[1]]
        return vals[0] if len(vals) == 1 else ('tuple', tuple(vals))
    if fv[0] == 'builtin':
        return builtin_value(fr, fv[1], args, kw, n)
    if fv[0] == 'localfn' and fv[1] in fr.ctx.__dict__.get('local_funcs', {}) and not extra and fr.depth < fr.ctx.max_depth:
        fn, owner = fr.ctx.local_funcs[fv[1]]
        bound, problems = bind_args(fn, args, kw, extra)
        if not problems:
            sub = SE.Frame(fr.ctx, fn, bound, depth=fr.depth + 1, pc=fr.pc, loops=fr.loops)
            closure = dict(owner.env)
            closure.update(sub.env)                  # parameters shadow the enclosing names
            sub.env = closure
            sub.alias = {p_: p_ for p_ in fn.params}
            sub.perm = list(fr.perm)
            sub.ret_perm = list(fr.ret_perm)
            res = sub.run()
            return NONE if res is None else res
    if fv[0] == 'lambda' and fv[1] in fr.ctx.lambdas and not kw and not extra:
        node, captured, mod_, owner = fr.ctx.lambdas[fv[1]]
        names = [a.arg for a in node.args.args]
        dflt = fr.ctx.__dict__.get('lambda_defaults', {}).get(fv[1], {})
        if len(args) < len(names) and all(nm in dflt for nm in names[len(args):]):
            args = list(args) + [dflt[nm] for nm in names[len(args):]]
        if len(names) == len(args):
            saved_env, saved_mod = fr.env, fr.mod
            if owner == id(fr):
                captured = fr.env           # called in the frame that defined it: free names are looked up now (late binding), not when it was written
            fr.env = dict(captured, **dict(zip(names, args)))
            fr.mod = mod_
            try:
                r_ = fr.ex(node.body)             # a lambda is its body with the parameters bound
                return NONE if fv[1] in fr.ctx.__dict__.get('lambda_returns_none', ()) else r_
            finally:
                fr.env, fr.mod = saved_env, saved_mod
    fr.ctx.event('call', 'dynamic', [fv] + list(args), kw, guard=fr.guard(), loops=fr.loops, where=fr.where(n))
    return T.call('apply', [fv] + list(args), kw)


def bind_args(fn, args, kw, extra, skip_self=False):
    """Bind call arguments to the callee's parameters.  Returns (bound, problems)."""
    params = list(fn.params)
    bound, problems = {}, []
    pos = list(args)
    star = False
    if any(a[0] == 'starargs' for a in pos):
        # f(a, *rest, b): how many parameters the starred operand fills is not known here: only the arguments before it are bound by position,
        # and nothing can be said to be missing
        star = True
        pos = pos[:next(i for i, a in enumerate(pos) if a[0] == 'starargs')]
    if len(pos) > len(params):
        if fn.vararg:
            bound[fn.vararg] = ('tuple', tuple(pos[len(params):]))
            pos = pos[:len(params)]
        else:
            problems.append(f'{len(pos)} positional arguments for {len(params)} parameters')
            pos = pos[:len(params)]
    for p, a in zip(params, pos):
        bound[p] = a
    rest = {}
    for k, v in kw.items():
        if k in params or k in fn.kwonly:
            if k in bound:
                problems.append(f'multiple values for parameter {k!r}')
            bound[k] = v
        elif fn.kwarg:
            rest[k] = v
        else:
            problems.append(f'unexpected keyword argument {k!r}')
    if fn.kwarg:
        # mappings of unknown keys passed with ** end up in the callee's **kwargs (next to whatever they may have bound before): kept, as in a {**d} display
        bound[fn.kwarg] = ('dict', tuple(sorted(rest.items())) + tuple((('**', T.key(e)), e) for e in extra))
    for p in params + fn.kwonly:
        if p not in bound and p not in fn.defaults and not extra and not star:
            problems.append(f'missing argument {p!r}')
    return bound, problems


def canonical_call(fr, fn, bound, extra):
    """uninterpreted application of a package function in bound-parameter form (defaults made explicit), so that
    positional / keyword / omitted-default call styles have one normal form"""
    kw = dict(bound)
    for p in fn.params + fn.kwonly:
        if p not in kw and p in fn.defaults:
            d = fn.defaults[p]
            kw[p] = T.Cdec(d.value) if isinstance(d, ast.Constant) else fr.ex(d) if isinstance(d, (ast.Tuple, ast.List, ast.Dict, ast.UnaryOp)) else ('default', ast.unparse(d))
    if fn.kwarg and kw.get(fn.kwarg) == ('dict', ()):
        kw.pop(fn.kwarg)
    if extra:
        kw['**'] = ('tuple', tuple(extra))
    return T.call(fn.name, (), kw)


def ctx_decorators(fr, qual):
    try:
        return fr.ctx.lookup_func(qual).decorators
    except Exception:
        return []


_CHECKER_OK = {}


def _native_checker_conforms(ctx, qual, short):
    """does the package-level check_param_range / check_param_options raise ValueError exactly when the modelled primitive does?  Decided by evaluating its
    body on symbolic arguments (inlined, with this shortcut switched off) and comparing the union of its raise conditions with the primitive's condition"""
    key = (id(ctx.model), qual)
    if key in _CHECKER_OK:
        return _CHECKER_OK[key]
    _CHECKER_OK[key] = False                     # while it is being evaluated (and if anything goes wrong) it is an ordinary function
    try:
        fn = ctx.lookup_func(qual)
        v, lo, hi, opts = ('param', '__value'), ('param', '__lo'), ('param', '__hi'), ('param', '__options')
        sub_ctx = SE.Ctx(ctx.model)
        third = ('tuple', (lo, hi)) if short == 'check_param_range' else opts
        fr0 = SE.Frame(sub_ctx, fn, {fn.params[0]: v, fn.params[1]: C('label'), fn.params[2]: third})
        fr0.run()
        guards = [r[1] for r in sub_ctx.raises]
        kinds = {r[0] for r in sub_ctx.raises}
        want = T.or_([T.cmp_('Lt', v, lo), T.cmp_('Gt', v, hi)]) if short == 'check_param_range' else T.cmp_('NotIn', v, opts)
        got = T.or_(guards) if guards else FALSE
        ok = kinds == {'ValueError'} and (got == want or _same_truth(got, want))
        _CHECKER_OK[key] = bool(ok)
    except Exception:
        _CHECKER_OK[key] = False
    return _CHECKER_OK[key]


def _same_truth(a, b):
    """propositional equality over the atomic comparisons that occur (truth table, at most 6 atoms)"""
    import itertools
    atoms = []

    def collect(t):
        if t[0] in ('and', 'or'):
            for x in t[1]:
                collect(x)
        elif t[0] == 'not':
            collect(t[1])
        elif t not in atoms and t[0] != 'const':
            atoms.append(t)
    collect(a)
    collect(b)
    if len(atoms) > 6:
        return False

    def val(t, m):
        if t[0] == 'const':
            return bool(t[1])
        if t[0] == 'and':
            return all(val(x, m) for x in t[1])
        if t[0] == 'or':
            return any(val(x, m) for x in t[1])
        if t[0] == 'not':
            return not val(t[1], m)
        return m[t]
    return all(val(a, dict(zip(atoms, vs))) == val(b, dict(zip(atoms, vs))) for vs in itertools.product((True, False), repeat=len(atoms)))


def call_function(fr, qual, args, kw, extra, n, nself=0):
    """``nself`` = number of leading arguments that were supplied implicitly (the receiver of a method call): they have no node in n.args"""
    ctx = fr.ctx
    fn = ctx.lookup_func(qual)
    short = qual.rsplit('.', 1)[1]
    ov = ctx.overrides.get(qual) or ctx.overrides.get(short)
    bound, problems = bind_args(fn, args, kw, extra)
    if short in ('check_param_range', 'check_param_options') and fn.mod.endswith('utils.checks') and not problems and not extra and \
            all(p in bound for p in fn.params[:3]) and len(fn.params) >= 3 and _native_checker_conforms(ctx, qual, short):
        # the package's own implementation of a validation primitive, shown (once per run) to reject exactly what the primitive rejects: same event, same model
        pos = tuple(bound[p] for p in fn.params[:3])
        where = fr.where(n)
        ctx.event('call', short, pos, {}, guard=fr.guard(), loops=fr.loops, where=where, extra=dict(dotted=qual))
        if short == 'check_param_range':
            lo, hi = T.index(pos[2], C(0)), T.index(pos[2], C(1))
            bad = T.or_([T.cmp_('Lt', pos[0], lo), T.cmp_('Gt', pos[0], hi)])
        else:
            bad = T.cmp_('NotIn', pos[0], pos[2])
        if bad != FALSE:
            ctx.raises.append(('ValueError', T.and_(fr.pc + [bad]), where))
        return NONE
    ev = ctx.event('pkgcall', qual, args, kw, guard=fr.guard(), loops=fr.loops, where=fr.where(n),
                   extra={'bound': dict(bound), 'problems': problems, 'extra': tuple(extra)})
    if ov is not None:
        r = ov(fr, bound, n)
        if r is not None:
            return r
    if not ctx.inline or fr.depth >= ctx.max_depth or qual in ctx.no_inline or short in ctx.no_inline or ctx.is_foreign(qual) \
            or (ctx.inline_only is not None and not ctx.inline_only(fn)):
        res = canonical_call(fr, fn, bound, extra)
        ev['result'] = res
        return res
    sub = SE.Frame(ctx, fn, bound, depth=fr.depth + 1, pc=fr.pc, loops=fr.loops)
    sub.perm = list(fr.perm)
    sub.ret_perm = list(fr.ret_perm)
    ctx.inlined.add(qual)
    ev['inlined'] = True                       # the callee's own calls follow in the trace; rules about 'the first call' skip this event
    res = sub.run()
    # by-reference updates of arguments that were plain local names
    for p, new in sub.param_out.items():
        if p in fn.params:
            i = fn.params.index(p) - nself
            node = None
            if i < 0:
                continue
            if i < len(n.args) and not any(isinstance(a, ast.Starred) for a in n.args[:i + 1]):
                node = n.args[i]
            else:
                for k in n.keywords:
                    if k.arg == p:
                        node = k.value
            if isinstance(node, ast.Name) and node.id in fr.env:
                fr.update_name(node.id, new)
            elif isinstance(node, ast.Attribute) and isinstance(node.value, ast.Name) and fr.env.get(node.value.id, ('?',))[0] == 'obj':
                fr.place_set(node, new)                  # f(self.x): in-place update of the attribute's value
            elif isinstance(node, ast.Subscript) and not isinstance(node.slice, ast.Slice) and not fr.is_place(node) and fr.is_place(node.value) \
                    and not isinstance(node.value, ast.Name):
                # f(self.x[i]): the callee updated element i of the attribute's list in place
                fr.place_set(node.value, SE._arr_store(fr.place_get(node.value), fr.ex(node.slice), new, fr.guard()))
            elif fr.is_place(node) and not isinstance(node, ast.Name):
                fr.place_set(node, new)
            elif isinstance(node, ast.Subscript) and isinstance(node.value, ast.Name) and node.value.id in fr.env:
                k_ = fr.ex(node.slice) if not isinstance(node.slice, ast.Slice) else None
                if k_ is not None:
                    fr.update_name(node.value.id, SE._arr_store(fr.env[node.value.id], k_, new, fr.guard()))
    ev['result'] = res
    if res is None:
        if getattr(sub, 'always_raises', False) and fr.depth >= 0:
            raise SE.RaisedInCallee(qual)
        return ('noreturn', qual)
    return res


def construct(fr, cls, args, kw, extra, n):
    ctx = fr.ctx
    oid = ctx.fresh('obj')
    ctx.heap[oid] = {'cls': cls, 'attrs': {}}
    obj = ('obj', oid)
    init = ctx.model.lookup_method(cls, '__init__')
    ctx.event('construct', cls, args, kw, guard=fr.guard(), loops=fr.loops, where=fr.where(n), extra={'obj': obj})
    if init is not None:
        call_function(fr, init.qual, [obj] + list(args), kw, extra, n)
    return obj


# ---------------------------------------------------------------------------------------------- builtins
def builtin(fr, name, n):
    if name == 'map' and len(n.args) == 2 and not n.keywords and isinstance(n.args[0], ast.Name) and n.args[0].id in ('list', 'tuple', 'int', 'float', 'len') \
            and n.args[0].id not in fr.env:
        # map(f, it) for a builtin f == (f(x) for x in it): the comprehension's normal form
        comp = ast.GeneratorExp(elt=ast.Call(func=n.args[0], args=[ast.Name('_map_x', ast.Load())], keywords=[]),
                                generators=[ast.comprehension(target=ast.Name('_map_x', ast.Store()), iter=n.args[1], ifs=[], is_async=0)])
        ast.copy_location(comp, n)
        ast.fix_missing_locations(comp)
        return fr.ex(comp)
    if name == 'map' and len(n.args) >= 2 and not n.keywords and not any(isinstance(a, ast.Starred) for a in n.args) and 'map' not in fr.env:
        fv0 = fr.ex(n.args[0]) if isinstance(n.args[0], ast.Name) else None
        if isinstance(n.args[0], ast.Lambda) or (fv0 is not None and fv0[0] in ('lambda', 'localfn', 'funcref')):
            # map(f, xs, ys, ...) for a function of the program == (f(x, y, ...) for x, y, ... in zip(xs, ys, ...)): the comprehension's normal form
            names = [ast.Name(f'_map_x{i}', ast.Load()) for i in range(len(n.args) - 1)]
            tgt = ast.Name('_map_x0', ast.Store()) if len(names) == 1 else ast.Tuple([ast.Name(x.id, ast.Store()) for x in names], ast.Store())
            it = n.args[1] if len(names) == 1 else ast.Call(func=ast.Name('zip', ast.Load()), args=list(n.args[1:]), keywords=[])
            comp = ast.GeneratorExp(elt=ast.Call(func=n.args[0], args=names, keywords=[]),
                                    generators=[ast.comprehension(target=tgt, iter=it, ifs=[], is_async=0)])
            ast.copy_location(comp, n)
            ast.fix_missing_locations(comp)
            return fr.ex(comp)
    args = args_of(fr, n)
    kw, extra = kwargs_of(fr, n)
    return builtin_value(fr, name, args, kw, n)


def builtin_value(fr, name, args, kw, n):
    ctx = fr.ctx
    a0 = args[0] if args else None
    if name in ('any', 'all') and a0 is not None and a0[0] in ('list', 'tuple') and len(args) == 1 and not kw:
        ts = [fr.fold(x) for x in a0[1]]
        return T.or_(ts) if name == 'any' else T.and_(ts)         # any / all over an explicit sequence of conditions
    if name == 'divmod' and len(args) == 2 and not kw:
        return ('tuple', (T.floordiv(args[0], args[1]), T.mod(args[0], args[1])))         # divmod(a, b) is (a // b, a % b)
    if name == 'slice' and 1 <= len(args) <= 3 and not kw:
        lo, hi, st = (NONE, args[0], NONE) if len(args) == 1 else (args[0], args[1], args[2] if len(args) == 3 else NONE)
        return ('sl', lo, hi, st)                   # a slice object: x[slice(a, b)] is x[a:b]
    if name == 'len' and a0 is not None:
        if a0[0] == 'call' and a0[1] == 'shape' and len(a0[2]) == 1 and not a0[3]:
            # len(x.shape) is x.ndim
            return fr.ctx.facts.get(('ndim', a0[2][0]), ('ndim', a0[2][0]))
        return length(a0)
    if name == 'int' and a0 is not None:
        if T.is_int(a0):
            return a0
        if a0[0] == 'div' and False:
            pass
        # int(len/2) == len // 2 for non-negative lengths
        if a0[0] == 'lin' and a0[1] == 0 and len(a0[2]) == 1 and a0[2][0][0][0] in ('len', 'nrows') and T.Fraction(a0[2][0][1]) > 0 \
                and T.Fraction(a0[2][0][1]).numerator == 1:
            return T.floordiv(a0[2][0][0], C(T.Fraction(a0[2][0][1]).denominator))
        return T.call('int', (a0,))
    if name == 'float' and a0 is not None:
        if a0[0] == 'const' and a0[1] in ('inf', 'nan', '-inf'):
            return a0
        return a0
    if name == 'bool' and a0 is not None:
        return fr.truth(a0)
    if name == 'str' and a0 is not None:
        if T.isconst(a0):
            return C(str(a0[1]))
        return T.call('str', (a0,))
    if name == 'isinstance' and len(args) == 2:
        return isinstance_(fr, args[0], n.args[1])
    if name in ('list', 'tuple'):
        if not args:
            return (name, ())
        if a0[0] in ('list', 'tuple'):
            return (name, a0[1])
        if a0[0] == 'nd' and a0[1][0] in ('list', 'tuple'):
            return (name, a0[1][1])
        if a0[0] in ('dict', 'table'):
            return (name, tuple(C(k) for k, _ in a0[1]))          # iterating a mapping yields its keys
        if a0[0] == 'keys' and len(a0) > 2 and a0[2][0] in ('dict', 'table'):
            return (name, tuple(C(k) for k in a0[1]))
        if a0[0] == 'map':
            return a0
        if name == 'list' and term_kind(fr, a0) == 'list':
            return a0                             # list(x) of a value documented / known to be a list: an equal list
        return T.call('list', (a0,))
    if name == 'dict':
        if not args:
            return ('dict', tuple(sorted(kw.items())))
        if a0[0] == 'call' and a0[1] == 'zip' and len(a0[2]) == 2 and all(x[0] in ('list', 'tuple') for x in a0[2]) \
                and all(T.isconst(k_) for k_ in a0[2][0][1]) and len(a0[2][0][1]) == len(a0[2][1][1]):
            d = {k_[1]: v_ for k_, v_ in zip(a0[2][0][1], a0[2][1][1])}
            d.update(kw)
            return ('dict', tuple(sorted(d.items(), key=lambda kv: repr(kv[0]))))
        if a0[0] in ('list', 'tuple') and all(x[0] == 'tuple' and len(x[1]) == 2 and T.isconst(x[1][0]) for x in a0[1]):
            d = {x[1][0][1]: x[1][1] for x in a0[1]}
            d.update(kw)
            return ('dict', tuple(sorted(d.items(), key=lambda kv: repr(kv[0]))))
        if a0[0] == 'dict':
            d = dict(a0[1])
            d.update(kw)
            return ('dict', tuple(sorted(d.items(), key=lambda kv: repr(kv[0]))))
        return T.call('dict', args, kw)
    if name in ('max', 'min') and args:
        items = args if len(args) > 1 else (list(a0[1]) if a0[0] in ('tuple', 'list') else None)
        if items is not None and all(T.isnum(x) for x in items):
            return C((max if name == 'max' else min)(x[1] for x in items))
        if items is not None:
            return ('call', 'py' + name, (('tuple', T.sort_terms(items)),), ())
        return T.call('py' + name, args, kw)
    if name == 'abs' and a0 is not None:
        return T.call('abs', (a0,))
    if name == 'sum' and a0 is not None:
        return T.call('sum', args)
    if name == 'next' and a0 is not None:
        if a0[0] == 'filtermap':
            return ('first', a0[1], a0[2], a0[3])
        if a0[0] == 'map':
            return ('first', a0[1], TRUE, a0[2])
        if a0[0] == 'cycleiter':
            return ('call', 'next', (a0,), ())
        return T.call('next', args)
    if name == 'range':
        a = args
        lo, hi, st = (C(0), a[0], C(1)) if len(a) == 1 else (a[0], a[1], C(1)) if len(a) == 2 else (a[0], a[1], a[2])
        return ('rangeobj', lo, hi, st)
    if name in ('enumerate', 'zip', 'reversed', 'sorted', 'iter'):
        return T.call(name, args, kw)
    if name == 'print':
        ctx.event('call', 'print', args, kw, guard=fr.guard(), loops=fr.loops, where=fr.where(n))
        return NONE
    if name == 'getattr' and len(args) >= 2:
        if args[0][0] == 'obj' and T.isconst(args[1]) and isinstance(args[1][1], str):
            at = ctx.heap[args[0][1]]['attrs']
            if args[1][1] in at:
                return at[args[1][1]]                       # getattr(obj, 'name') is obj.name
        return ('attr', args[0], args[1])
    if name == 'setattr' and len(args) == 3 and args[0][0] == 'obj' and T.isconst(args[1]) and isinstance(args[1][1], str):
        # setattr(obj, 'name', v) is obj.name = v
        at = ctx.heap[args[0][1]]['attrs']
        g = T.and_(fr.pc + fr.ret_perm + [c for lvl in fr.alive for c in lvl['conds']])
        at[args[1][1]] = args[2] if g == TRUE else T.gamma(g, args[2], at.get(args[1][1], ('undefined', args[1][1])))
        ctx.event('setattr', args[1][1], (args[0], args[2]), guard=g, loops=fr.loops, where=fr.where(n))
        return NONE
    if name == 'super':
        return ('super',)
    if name in ('ValueError', 'TypeError', 'KeyError', 'AttributeError', 'ImportError', 'Exception', 'IndexError'):
        return ('exc', name)
    if name == 'type':
        return T.call('type', args)
    if name == 'round' and len(args) == 1 and not kw:
        # builtin round(x): the nearest integer (ties to even); the identity on integers
        return args[0] if T.is_int(args[0]) else T.call('round', args)
    ctx.unmodelled.add(name)
    ctx.event('call', name, args, kw, guard=fr.guard(), loops=fr.loops, where=fr.where(n))
    return T.call(name, args, kw)


length = T.length
keylen = T.keylen


def dims_of(a):
    """tuple of dimension terms of an array term with known shape, else None"""
    if a[0] == 'nd':
        a = a[1]
    if a[0] == 'shaped':
        return tuple(C(d) if isinstance(d, int) else d for d in a[2])
    if a[0] == 'table':
        return (a[2], C(len(a[1])))                 # a DataFrame: (rows, columns)
    if a[0] == 'call' and a[1] == 'swapaxes' and len(a[2]) == 3 and all(T.isconst(x) and isinstance(x[1], int) for x in a[2][1:]):
        d = dims_of(a[2][0])
        if d is not None:
            d = list(d)
            i, j = a[2][1][1], a[2][2][1]
            d[i], d[j] = d[j], d[i]
            return tuple(d)
    if a[0] == 'call' and a[1] == 'reshape' and len(a[2]) >= 2:
        return tuple(a[2][1:]) if a[2][1][0] != 'tuple' else tuple(a[2][1][1])
    if a[0] == 'call' and a[1] == 'flatten' and len(a[2]) == 1:
        d = dims_of(a[2][0])
        if d is not None:
            n = C(1)
            for x in d:
                n = T.mul(n, x)
            return (n,)
    if a[0] == 'idx' and (T.is_int(a[2]) or a[2][0] == 'lv'):
        d = dims_of(a[1])
        if d is not None and len(d) > 1:
            return d[1:]
    if a[0] in ('list', 'tuple'):
        return (C(len(a[1])),)
    return None


def shape_of(a):
    d = dims_of(a)
    if d is not None:
        return ('tuple', d)
    return T.call('shape', (a,))


PYKIND = {'dict': 'dict', 'list': 'list', 'tuple': 'tuple', 'np.ndarray': 'ndarray', 'pd.DataFrame': 'df',
          'pd.core.frame.DataFrame': 'df', 'str': 'str', 'int': 'int', 'float': 'float'}


def term_kind(fr, t):
    tag = t[0]
    if tag == 'const':
        v = t[1]
        return 'none' if v is None else 'bool' if isinstance(v, bool) else 'str' if isinstance(v, str) and v not in ('nan', 'inf', '-inf') else 'num'
    if tag in ('dict', 'list', 'tuple'):
        return tag
    if tag == 'table':
        return 'df'
    if tag == 'param':
        return fr.ctx.kinds.get(t[1])
    if tag == 'typed':
        return t[1]
    if tag == 'nd':
        return 'ndarray'
    if tag == 'shaped':
        return 'ndarray'
    if tag in ('band', 'bor') and t[1] and all(term_kind(fr, x) == 'ndarray' for x in t[1]):
        return 'ndarray'                                  # element-wise and / or of numpy arrays (a pandas operand would make it a Series)
    if tag == 'binv' and term_kind(fr, t[1]) == 'ndarray':
        return 'ndarray'
    if series_like(t):
        return 'series'
    if tag == 'arr':
        return term_kind(fr, t[1]) or 'ndarray'          # element stores keep the python type of the container
    if tag in ('map',) or (tag == 'call' and (t[1] in ('array', 'zeros', 'ones', 'asarray', 'flatten', 'append', 'flatnonzero', 'astype') or t[1] in NP_DIRECT)):
        return 'ndarray' if not (tag == 'map') else 'list'
    if tag == 'atom':
        return {'intarr': 'ndarray', 'arr': 'ndarray', 'boolarr': 'ndarray', 'table': 'df', 'dict': 'dict', 'list': 'list'}.get(t[2])
    if tag == 'call' and not t[2]:
        # a package call kept in bound-parameter form: the kind documented in its numpydoc Returns section
        try:
            fn = fr.ctx.model.find(t[1])
        except Exception:
            return None
        rets = getattr(fn, 'retkinds', None) or []
        return rets[0] if len(rets) == 1 else None
    return None


def series_like(t):
    """a pandas Series: a column of a table, or an element-wise expression over one (not yet converted by .values / .to_numpy())"""
    tag = t[0]
    if tag == 'col':
        return True
    if tag == 'lin':
        return any(series_like(x) for x, c in t[2])
    if tag in ('cmp0', 'binv'):
        return series_like(t[2] if tag == 'cmp0' else t[1])
    if tag in ('band', 'bor', 'mul'):
        return any(series_like(x) for x in t[1])
    if tag == 'div':
        return series_like(t[1]) or series_like(t[2])
    if tag == 'idx' and t[2][0] == 'rowsel':
        return series_like(t[1])
    return False


def isinstance_(fr, t, type_node):
    names = [ast.unparse(e) for e in type_node.elts] if isinstance(type_node, ast.Tuple) else [ast.unparse(type_node)]
    want = {PYKIND.get(x, x) for x in names}
    k = term_kind(fr, t)
    if k is not None:
        if k in want:
            return TRUE
        if k == 'num' and ({'int', 'float'} & want):
            return ('isinstance', t, tuple(sorted(want)))
        return FALSE
    return ('isinstance', t, tuple(sorted(want)))


# ---------------------------------------------------------------------------------------------- externals
NP_SIG = {   # positional parameter names of the numpy / pandas functions the repository calls (numpy documentation)
    'pad': ['array', 'pad_width', 'mode'], 'diff': ['a', 'n', 'axis', 'prepend', 'append'], 'append': ['arr', 'values', 'axis'],
    'zeros': ['shape', 'dtype'], 'ones': ['shape', 'dtype'], 'interp': ['x', 'xp', 'fp'], 'mean': ['a', 'axis'], 'median': ['a', 'axis'],
    'sum': ['a', 'axis'], 'argmax': ['a', 'axis'], 'argmin': ['a', 'axis'], 'swapaxes': ['a', 'axis1', 'axis2'], 'unique': ['ar'],
    'array': ['object', 'dtype'], 'asarray': ['a', 'dtype'], 'arange': ['start', 'stop', 'step'], 'where': ['condition', 'x', 'y'],
    'flatnonzero': ['a'], 'isnan': ['x'], 'abs': ['x'], 'ceil': ['x'], 'floor': ['x'], 'logical_and': ['x1', 'x2'], 'logical_or': ['x1', 'x2'],
    'nanmin': ['a', 'axis'], 'nanmax': ['a', 'axis'], 'min': ['a', 'axis'], 'max': ['a', 'axis'], 'reshape': ['a', 'newshape'], 'shape': ['a'],
    'concat': ['objs', 'axis'],
}


def positional_form(params, args, kw):
    """move keyword arguments into the positional slots they name, as long as the slots stay contiguous: one normal form for
    f(x, 3), f(x, n=3) and f(a=x, n=3)"""
    args, kw = list(args), dict(kw)
    if any(a[0] == 'starargs' for a in args):
        return args, kw
    for p_ in params[len(args):]:
        if p_ in kw:
            args.append(kw.pop(p_))
        else:
            break
    return args, kw


def external(fr, dotted, args, kw, extra, n):
    ctx = fr.ctx
    parts = dotted.split('.')
    top, name = parts[0], parts[-1]
    if top == 'numpy' and name not in ('array', 'asarray'):
        args = [a[1] if a[0] == 'nd' else a for a in args]        # numpy functions see values: the list/Series -> ndarray marker is irrelevant inside
    if top in ('numpy', 'pandas') and name in NP_SIG:
        args, kw = positional_form(NP_SIG[name], args, kw)
    elif top in ('neurodsp', 'scipy'):
        from .srcmodel import external_function
        node_, _p = external_function(dotted)
        if node_ is not None:
            args, kw = positional_form([a.arg for a in node_.args.posonlyargs + node_.args.args], args, kw)
    guard, loops, where = fr.guard(), fr.loops, fr.where(n)
    a0 = args[0] if args else None
    if extra and '**' not in kw:
        kw = dict(kw)
        kw['**'] = ('tuple', tuple(extra))          # f(..., **mapping) with a mapping whose keys are not known: part of the call, never dropped

    def ev(nm=None, **extra_):
        return ctx.event('call', nm or name, args, kw, guard=guard, loops=loops, where=where, extra=dict(dotted=dotted, **extra_))

    if dotted in ('numpy.logical_or.reduce', 'numpy.logical_and.reduce', 'numpy.bitwise_or.reduce', 'numpy.bitwise_and.reduce') and len(args) == 1 and not kw:
        seq = args[0][1] if args[0][0] == 'nd' else args[0]
        if seq[0] in ('list', 'tuple') and seq[1]:
            # ufunc.reduce over an explicit sequence of element-wise conditions (axis 0): their element-wise conjunction / disjunction
            return (T.bor if '_or' in dotted else T.band)(list(seq[1]))
    if top == 'numpy':
        ctx.consulted.add('numpy.' + name)
        def same_type(x, dt):
            # the conversion is the identity when the operand already has that element type
            x = x[1] if x[0] == 'nd' else x
            if dt in (('builtin', 'int'), C('int')):
                return T.is_intarr(x) or (x[0] in ('list', 'tuple') and all(T.is_int(e) for e in x[1])) or (x[0] == 'map' and T.is_int(x[2])) or \
                    (x[0] == 'arr' and x[1][0] == 'call' and x[1][1] in ('zeros', 'ones', 'empty') and dict(x[1][3]).get('dtype') == C('int'))
            if dt in (('builtin', 'bool'), C('bool')):
                return T.is_boolarr(x) or (x[0] in ('list', 'tuple') and all(T.isconst(e) and isinstance(e[1], bool) for e in x[1]))
            return False
        if name in ('array', 'asarray') and a0 is not None and (kw.get('dtype', NONE) != NONE or (len(args) > 1 and args[1] != NONE)) \
                and not same_type(a0, kw.get('dtype', args[1] if len(args) > 1 else NONE)):
            # an explicit dtype is a conversion of the element type (float32 / integer input no longer computes in its own type)
            return ('nd', T.call('astype', (a0[1] if a0[0] == 'nd' else a0, kw.get('dtype', args[1] if len(args) > 1 else NONE))))
        if name in ('array', 'asarray') and a0 is not None:
            # value preserving; only the python type changes (list -> ndarray), recorded by a transparent wrapper
            return a0 if term_kind(fr, a0) == 'ndarray' else ('nd', a0)
        if name == 'zeros' or name == 'ones':
            k2 = {k: v for k, v in kw.items() if k != 'dtype'}
            dt = kw.get('dtype')
            t = T.call(name, args, k2)
            if dt is not None and dt in (('builtin', 'bool'), ('builtin', 'int')):
                t = T.call(name, args, dict(k2, dtype=C(dt[1])))
            return t
        if name in ('min', 'max', 'nanmin', 'nanmax', 'amin', 'amax') and a0 is not None:
            nm = {'amin': 'min', 'amax': 'max'}.get(name, name)
            if a0[0] in ('list', 'tuple') and len(a0[1]) == 1 and len(args) == 1 and not kw and T.scalar_value(a0[1][0]):
                return a0[1][0]                       # the extreme of one number
            if a0[0] in ('list', 'tuple'):
                return ('call', nm, ((a0[0] and 'tuple', T.sort_terms(a0[1])),), tuple(sorted(kw.items())))
            return T.call(nm, args, kw)
        if name == 'logical_and':
            return T.band(args)
        if name == 'logical_or':
            return T.bor(args)
        if name == 'logical_not':
            return T.binv(a0)
        if name in ('subtract', 'add', 'multiply', 'divide', 'true_divide', 'negative') and args:
            if name == 'negative':
                return T.neg(a0)
            op = {'subtract': T.sub, 'add': T.add, 'multiply': T.mul, 'divide': T.div, 'true_divide': T.div}[name]
            return op(args[0], args[1])
        if name in ('greater', 'greater_equal', 'less', 'less_equal', 'equal', 'not_equal') and len(args) == 2:
            op = {'greater': 'Gt', 'greater_equal': 'GtE', 'less': 'Lt', 'less_equal': 'LtE', 'equal': 'Eq', 'not_equal': 'NotEq'}[name]
            da, db = (x[1] if x[0] == 'nd' else x for x in args)
            if da[0] in ('list', 'tuple') and db[0] in ('list', 'tuple') and not kw \
                    and all(T.scalar_value(e) for e in da[1] + db[1]) and (len(da[1]) == len(db[1]) or 1 in (len(da[1]), len(db[1]))):
                # two explicit sequences of numbers: numpy compares element by element and *broadcasts* a length-1 operand
                # (a length mismatch it can broadcast is not a mismatch for it)
                la, lb = len(da[1]), len(db[1])
                return ('nd', ('list', tuple(T.cmp_(op, da[1][i if la > 1 else 0], db[1][i if lb > 1 else 0]) for i in range(max(la, lb)))))
            return T.cmp_(op, args[0], args[1])
        if name in ('any', 'all') and len(args) == 1 and not kw:
            d0 = a0[1] if a0[0] == 'nd' else a0
            if d0[0] in ('list', 'tuple') and all(T.scalar_value(e) or T.isconst(e) or e[0] in ('cmp', 'and', 'or', 'not') for e in d0[1]):
                ts = [fr.fold(x) for x in d0[1]]
                return T.or_(ts) if name == 'any' else T.and_(ts)
        if name == 'repeat' and len(args) == 2 and not kw and T.isconst(args[1]) and isinstance(args[1][1], int) and 0 < args[1][1] <= 8:
            src = T.strip_nd(a0)
            if src[0] == 'call' and src[1] == 'astype' and src[2] and T.strip_nd(src[2][0])[0] == 'map':
                src = T.strip_nd(src[2][0])             # an element-type conversion of the per-row values does not change which value is repeated
            if src[0] == 'map':
                return ('nd', ('concatmap', src[1], ('list', (src[2],) * args[1][1])))   # each element repeated k times in place
        if name == 'union1d' and len(args) == 2 and not kw:
            return T.call('unique', (T.call('append', (args[0], args[1])),))      # numpy: union1d(a, b) is unique(concatenate((a, b)))
        if name == 'where' and len(args) == 3 and not kw:
            # np.where(c, a, b): element i is a[i] where c[i] holds, else b[i]  (== [a[i] if c[i] else b[i] for i ...])
            n_ = next((T.length(x) for x in (args[2], args[1], args[0]) if not T.scalar_value(x)), None)
            if n_ is not None:
                lv = ('lv', ('range', C(0), n_, C(1)), len(fr.loops))
                pick = [x if T.scalar_value(x) else T.index(x, lv) for x in args]
                return ('nd', ('map', lv[1], T.gamma(pick[0], pick[1], pick[2])))
        if name == 'where' and len(args) == 1:
            return ('tuple', (T.call('flatnonzero', (a0,)),))
        if name == 'nonzero' and len(args) == 1:
            return ('tuple', (T.call('flatnonzero', (a0,)),))
        if name == 'shape' and a0 is not None:
            return shape_of(a0)
        if name == 'append' and len(args) == 2:
            return T.call('append', args, kw)
        if name == 'errstate':
            return ('ctxmgr', 'errstate')
        if name == 'isnan' and a0 is not None and a0[0] in ('list', 'tuple'):
            return T.call('isnan', (('tuple', a0[1]),))
        if name == 'mean' and a0 is not None and a0[0] in ('list', 'tuple') and not kw and len(args) == 1 and a0[1]:
            # mean of a literal list of scalars == their sum / n (exact for two elements)
            return T.lin(0, [(x, T.Fraction(1, len(a0[1]))) for x in a0[1]])
        if name in ('ceil', 'floor') and a0 is not None and T.isnum(a0):
            import math
            return C(int(math.ceil(a0[1]) if name == 'ceil' else math.floor(a0[1])))
        if name in NP_DIRECT or name in SE.MODELLED:
            return T.call(name, args, kw)
        if parts[1:2] == ['random']:
            ev('random.' + name)
            return T.call('random.' + name, args, kw)
        ctx.unmodelled.add(dotted)
        return T.call(name, args, kw)
    if top == 'pandas':
        ctx.consulted.add('pandas.' + '.'.join(parts[1:]))
        tail = '.'.join(parts[1:])
        if tail == 'Series' and len(args) == 1 and set(kw) <= {'index'} and (not kw or (kw['index'][0] == 'attr' and kw['index'][2] == 'index')):
            # pd.Series(values[, index=<frame>.index]): the same values, labelled like the frame they were computed from (or 0..n-1): value preserving
            return a0[1] if a0[0] == 'nd' else a0
        if tail == 'DataFrame.from_dict' and a0 is not None:
            if a0[0] == 'dict' and all(isinstance(k, str) for k, _ in a0[1]):
                nrows = length(a0[1][0][1]) if a0[1] else C(0)
                return ('table', tuple(sorted(a0[1])), nrows)
            return T.call('from_dict', args, kw)
        if tail == 'DataFrame':
            if not args and not kw:
                return ('table', (), ('atom', 'nrows-of-empty-frame', 'int'))
            if a0 is not None and a0[0] == 'dict' and all(isinstance(k, str) for k, _ in a0[1]):
                nrows = length(a0[1][0][1]) if a0[1] else C(0)
                return ('table', tuple(sorted(a0[1])), nrows)
            return T.call('DataFrame', args, kw)
        if tail == 'concat' and a0 is not None:
            axis = kw.get('axis', args[1] if len(args) > 1 else C(0))
            if a0[0] in ('tuple', 'list') and axis == C(1) and all(t[0] == 'table' for t in a0[1]):
                d, nrows = {}, None
                for t in a0[1]:
                    d.update(dict(t[1]))
                    if t[1] and (nrows is None or nrows[0] == 'atom'):
                        nrows = t[2]
                return ('table', tuple(sorted(d.items())), nrows if nrows is not None else C(0))
            return T.call('concat', args, kw)
        ctx.unmodelled.add(dotted)
        return T.call(name, args, kw)
    if top == 'copy' or dotted in ('copy.deepcopy', 'copy.copy'):
        return a0 if a0 is not None else NONE
    if dotted == 'functools.partial' and a0 is not None:
        return ('partial', a0, tuple(args[1:]), tuple(sorted(kw.items())), tuple(extra))
    if dotted == 'warnings.warn':
        ev('warn')
        return NONE
    if dotted in ('operator.gt', 'operator.lt', 'operator.ge', 'operator.le') and len(args) == 2:
        return T.cmp_({'gt': 'Gt', 'lt': 'Lt', 'ge': 'GtE', 'le': 'LtE'}[name], args[0], args[1])
    if dotted == 'functools.reduce' and len(args) >= 2 and args[1][0] in ('list', 'tuple') and args[1][1] and args[0][0] == 'extref':
        opn = args[0][1]
        items = list(args[1][1]) if len(args) == 2 else [args[2]] + list(args[1][1])
        fold = {'operator.and_': lambda a, b: T.band([a, b]), 'operator.or_': lambda a, b: T.bor([a, b]), 'operator.add': T.add, 'operator.mul': T.mul,
                'numpy.logical_and': lambda a, b: T.band([a, b]), 'numpy.logical_or': lambda a, b: T.bor([a, b])}.get(opn)
        if fold is not None:
            acc = items[0]
            for x in items[1:]:
                acc = fold(acc, x)
            return acc
    if dotted in ('itertools.chain.from_iterable', 'itertools.chain') and args:
        # chaining explicit sequences is their concatenation (iterated once, in order)
        parts = list(args[0][1]) if dotted.endswith('from_iterable') and args[0][0] in ('list', 'tuple') else list(args) if dotted == 'itertools.chain' else None
        if parts is not None and all(T.strip_nd(p)[0] in ('list', 'tuple') for p in parts):
            return ('list', tuple(x for p in parts for x in T.strip_nd(p)[1]))
    if dotted == 'operator.neg' and len(args) == 1:
        return T.neg(args[0])
    if dotted == 'operator.pos' and len(args) == 1:
        return args[0]
    if dotted in ('operator.and_', 'operator.or_') and len(args) == 2:
        return T.band(args) if dotted.endswith('and_') else T.bor(args)
    if dotted == 'itertools.product':
        return T.call('product', args, kw)
    if dotted == 'operator.attrgetter' and args and not kw and all(T.isconst(a) and isinstance(a[1], str) and '.' not in a[1] for a in args):
        return ('attrgetter', tuple(a[1] for a in args))
    if dotted == 'itertools.repeat' and len(args) == 2 and not kw:
        return T.call('seqrepeat', (('list', (args[0],)), args[1]))      # repeat(x, n) yields what [x] * n holds
    if dotted == 'itertools.cycle':
        return ('cycleiter', a0)
    if dotted == 'multiprocessing.cpu_count':
        return ('atom', 'cpu_count', 'int')
    if dotted == 'multiprocessing.Pool':
        e = ev('Pool')
        return ('pool', T.call('Pool', args, kw))
    if dotted == 'importlib.import_module':
        ev('import_module')
        return ('module', a0)
    if name in ('check_param_range', 'check_param_options'):
        ev(name)
        # model (neurodsp/utils/checks.py): raises ValueError iff out of range / not an option
        if name == 'check_param_range' and len(args) == 3:
            p, b = args[0], args[2]
            lo, hi = T.index(b, C(0)), T.index(b, C(1))
            bad = T.or_([T.cmp_('Lt', p, lo), T.cmp_('Gt', p, hi)])
            if bad != FALSE:
                ctx.raises.append(('ValueError', T.and_(fr.pc + [bad]), where))
            if bad == TRUE:
                pass
        elif name == 'check_param_options' and len(args) == 3:
            bad = T.cmp_('NotIn', args[0], args[2])
            if bad != FALSE:
                ctx.raises.append(('ValueError', T.and_(fr.pc + [bad]), where))
        return NONE
    if top in ('neurodsp', 'scipy', 'matplotlib') or True:
        ev(name)
        if name not in SE.MODELLED:
            ctx.unmodelled.add(dotted)
        if name in ('subplots',):
            return ('tuple', (('atom', 'fig', 'any'), ('plotaxes', T.call('subplots', args, kw))))
        return T.call(name, args, kw)


# ---------------------------------------------------------------------------------------------- methods
METHOD_SIG = {'rename': [], 'drop': ['labels'], 'pop': ['item'], 'get': ['key', 'default'], 'astype': ['dtype'], 'reshape': ['shape'],
              'rank': [], 'append': ['object'], 'get_loc': ['key'], 'replace': ['old', 'new'], 'startswith': ['prefix'], 'endswith': ['suffix']}


PURE_STR_METHODS = {'split', 'rsplit', 'replace', 'startswith', 'endswith', 'upper', 'lower', 'strip', 'lstrip', 'rstrip', 'capitalize', 'title', 'partition', 'rpartition',
                    'removeprefix', 'removesuffix', 'find', 'rfind', 'count', 'isdigit', 'isalpha'}


def _py_to_term(v):
    if isinstance(v, (str, bool, int)):
        return C(v)
    if isinstance(v, (list, tuple)):
        items = [_py_to_term(x) for x in v]
        if any(x is None for x in items):
            return None
        return ('list' if isinstance(v, list) else 'tuple', tuple(items))
    return None


def method(fr, recv, recv_node, name, args, kw, extra, n):
    ctx = fr.ctx
    if name in METHOD_SIG and METHOD_SIG[name]:
        args, kw = positional_form(METHOD_SIG[name], args, kw)
    guard, loops, where = fr.guard(), fr.loops, fr.where(n)
    a0 = args[0] if args else None
    tag = recv[0]

    def const_key(knode):
        if isinstance(knode, ast.Constant) or (isinstance(knode, ast.Name) and T.isconst(fr.env.get(knode.id, ('?',)))):
            return fr.ex(knode)
        return None

    def parent_of(node):
        # d['k'] / d.get('k') / d.setdefault('k', ...) denote (an alias of) the entry k of d
        if isinstance(node, ast.Subscript) and not isinstance(node.slice, ast.Slice):
            return node.value, const_key(node.slice)
        if isinstance(node, ast.Call) and isinstance(node.func, ast.Attribute) and node.func.attr in ('get', 'setdefault') and node.args and not node.keywords:
            return node.func.value, const_key(node.args[0])
        return None, None

    def value_of(node):
        if fr.is_place(node):
            return fr.place_get(node)
        par, k = parent_of(node)
        if par is None or k is None:
            return None
        pv = value_of(par)
        if pv is not None and pv[0] == 'dict':
            return dict(pv[1]).get(k[1])
        return None

    def rebind_node(node, new):
        if fr.is_place(node):
            fr.place_set(node, new)
            return True
        par, k = parent_of(node)
        if par is None or k is None:
            return False
        pv = value_of(par)
        if pv is None or pv[0] != 'dict':
            return False
        d = dict(pv[1])
        d[k[1]] = new
        return rebind_node(par, ('dict', tuple(sorted(d.items(), key=lambda kv: repr(kv[0])))))

    def rebind(new):
        if not rebind_node(recv_node, new):
            ctx.event('mutate', name, (recv,) + tuple(args), kw, guard=guard, loops=loops, where=where, extra={'target': ast.unparse(recv_node)})

    if tag == 'obj':
        m = ctx.model.lookup_method(ctx.heap[recv[1]]['cls'], name)
        if m is not None:
            if 'staticmethod' in m.decorators:
                return call_function(fr, m.qual, list(args), kw, extra, n)         # no implicit first argument
            return call_function(fr, m.qual, [recv] + list(args), kw, extra, n, nself=1)
    if tag == 'boundmethod':
        pass
    if tag == 'pool':
        e = ctx.event('call', 'pool.' + name, args, kw, guard=guard, loops=loops, where=where, extra={'pool': recv})
        if name == '__enter__':
            return recv
        return ('poolresult', name, a0 if a0 is not None else NONE, args[1] if len(args) > 1 else NONE)
    if tag == 'module':
        ctx.event('call', 'module.' + name, (recv,) + tuple(args), kw, guard=guard, loops=loops, where=where)
        return T.call('module.' + name, (recv,) + tuple(args), kw)
    if tag == 'plotaxes' or (tag == 'idx' and recv[1][0] == 'plotaxes') or (tag == 'param' and recv[1] == 'ax') or \
            (tag == 'gamma' and any(x[0] == 'plotaxes' for x in T.walk(recv))):
        ctx.event('call', 'ax.' + name, (recv,) + tuple(args), kw, guard=guard, loops=loops, where=where)
        return T.call('ax.' + name, (recv,) + tuple(args), kw)
    if tag == 'const' and isinstance(recv[1], str) and name == 'join' and len(args) == 1 and not kw:
        seq = args[0][1] if args[0][0] == 'nd' else args[0]
        if seq[0] in ('tuple', 'list') and all(T.isconst(e) and isinstance(e[1], str) for e in seq[1]):
            return C(recv[1].join(e[1] for e in seq[1]))         # sep.join of an explicit sequence of constant strings
    # ---- methods of a constant string with constant arguments: evaluated (pure)
    if tag == 'const' and isinstance(recv[1], str) and name in PURE_STR_METHODS and not kw and all(T.isconst(a) and not isinstance(a[1], bool) or T.isconst(a) for a in args):
        try:
            val = getattr(recv[1], name)(*[a[1] for a in args])
        except Exception:
            val = None
        t = _py_to_term(val)
        if t is not None:
            return t
    # ---- value preserving
    if name == 'to_numpy':
        return recv if term_kind(fr, recv) == 'ndarray' else ('nd', recv)      # same values, python type becomes ndarray
    if name in ('copy', 'squeeze') and tag not in ('dict',):
        return recv
    if name == 'copy' and tag == 'dict':
        return recv
    if name == 'reset_index':
        return NONE if kw.get('inplace') == TRUE else recv
    if name == 'astype' and a0 is not None:
        if a0 in (('builtin', 'int'), C('int')) and (recv[0] in ('cmp0', 'cmp', 'band', 'bor', 'binv') or
                                                     (recv[0] == 'call' and recv[1] in ('detect_bursts_dual_threshold', 'isnan', 'isfinite'))):
            return recv      # bool -> 0/1: value preserving for means and sums
        return T.call('astype', (recv, a0))
    if name == 'tolist':
        return recv
    # ---- dict-like
    if name == 'keys':
        if tag in ('dict', 'table'):
            return ('keys', tuple(k for k, _ in recv[1]), recv)
        return ('keys', None, recv)
    if name == 'items':
        if tag == 'dict':
            return ('list', tuple(('tuple', (C(k) if not isinstance(k, tuple) else k[1], v)) for k, v in recv[1]))
        return ('items', recv)
    if name == 'values' and tag == 'dict':
        return ('list', tuple(v for _, v in recv[1]))
    if name == 'get' and a0 is not None:
        default = args[1] if len(args) > 1 else NONE
        if tag == 'dict' and T.isconst(a0):
            v = dict(recv[1]).get(a0[1])
            return default if v is None else v
        if tag == 'dict' and 0 < len(recv[1]) <= 4 and all(isinstance(k_, str) for k_, _ in recv[1]) and a0[0] in ('param', 'atom'):
            # a small constant table looked up with an unknown key and a default: value of the first key it equals, else the default
            out = default
            for k_, v_ in reversed(recv[1]):
                out = T.gamma(T.cmp_('Eq', a0, C(k_)), v_, out)
            return out
        return ('dictget', recv, a0, default)
    if name == 'setdefault' and a0 is not None and tag in ('dict', 'param', 'dictdel', 'typed', 'idx', 'gamma', 'carried', 'valat', 'lv', 'arr'):
        default = args[1] if len(args) > 1 else NONE
        if tag == 'dict' and T.isconst(a0):
            d = dict(recv[1])
            if a0[1] in d:
                return d[a0[1]]
            d[a0[1]] = default
            rebind(('dict', tuple(sorted(d.items(), key=lambda kv: repr(kv[0])))))
            ctx.event('mutate', 'setdefault', (recv, a0), guard=guard, loops=loops, where=where, extra={'target': ast.unparse(recv_node)})
            return default
        val = ('dictget', recv, a0, default)
        ctx.event('mutate', 'setdefault', (recv, a0), guard=guard, loops=loops, where=where, extra={'target': ast.unparse(recv_node)})
        rebind(SE._arr_store(recv, a0, val, guard))
        return val
    if name == 'pop' and a0 is not None and tag in ('dict', 'param', 'dictdel', 'typed', 'idx', 'gamma', 'carried', 'valat', 'lv'):
        default = args[1] if len(args) > 1 else ('nodefault',)
        if tag == 'dict' and T.isconst(a0):
            d = dict(recv[1])
            v = d.pop(a0[1], None)
            rebind(('dict', tuple(sorted(d.items(), key=lambda kv: repr(kv[0])))))
            ctx.event('mutate', 'pop', (recv, a0), guard=guard, loops=loops, where=where,
                      extra={'target': ast.unparse(recv_node), 'element_of': fr.loop_alias.get(recv_node.id) if isinstance(recv_node, ast.Name) else None})
            return default if v is None else v
        ctx.event('mutate', 'pop', (recv, a0), guard=guard, loops=loops, where=where,
                      extra={'target': ast.unparse(recv_node), 'element_of': fr.loop_alias.get(recv_node.id) if isinstance(recv_node, ast.Name) else None})
        if fr.is_place(recv_node):
            fr.place_set(recv_node, ('dictdel', recv, a0))
        return ('dictget', recv, a0, default)
    if name == 'pop' and tag == 'table' and a0 is not None and T.isconst(a0):
        d = dict(recv[1])
        v = d.pop(a0[1], ('missing', a0[1]))
        rebind(('table', tuple(sorted(d.items())), recv[2]))
        return v
    if name == 'update' and tag == 'dict' and (a0 is None or a0[0] == 'dict') and (a0 is not None or kw):
        d = dict(recv[1])
        if a0 is not None:
            d.update(dict(a0[1]))
        d.update(kw)                      # d.update(k=v, ...) / d.update(other, k=v)
        rebind(('dict', tuple(sorted(d.items(), key=lambda kv: repr(kv[0])))))
        return NONE
    if name == 'append' and a0 is not None:
        if tag in ('list',) and guard == TRUE and not fr.loops:
            rebind(('list', recv[1] + (a0,)))
        else:
            rel = T.and_(fr.pc[len(fr.pc) - 0:]) if False else guard
            rebind(('listappend', recv, a0, rel))
        ctx.event('mutate', 'append', (recv, a0), guard=guard, loops=loops, where=where, extra={'target': ast.unparse(recv_node)})
        return NONE
    if name == 'extend' and a0 is not None:
        if tag == 'list' and a0[0] in ('list', 'tuple') and guard == TRUE and not fr.loops:
            rebind(('list', recv[1] + a0[1]))
        else:
            # an extension the model cannot place element by element: the list is no longer a known display
            rebind(T.call('seqcat', (recv, a0)) if guard == TRUE else T.gamma(guard, T.call('seqcat', (recv, a0)), recv))
        ctx.event('mutate', 'extend', (recv, a0), guard=guard, loops=loops, where=where, extra={'target': ast.unparse(recv_node)})
        return NONE
    # ---- strings
    if name in ('startswith', 'endswith') and a0 is not None:
        if T.isconst(recv) and T.isconst(a0):
            return C(getattr(recv[1], name)(a0[1]))
        return ('strtest', name, recv, a0)
    if name == 'replace' and len(args) == 2:
        if all(T.isconst(x) for x in (recv, args[0], args[1])):
            return C(recv[1].replace(args[0][1], args[1][1]))
        return T.call('str.replace', (recv,) + tuple(args))
    if name in ('capitalize', 'lower', 'upper', 'strip') and not args:
        if T.isconst(recv) and isinstance(recv[1], str):
            return C(getattr(recv[1], name)())
        return T.call('str.' + name, (recv,))
    if name == 'format':
        if T.isconst(recv) and isinstance(recv[1], str) and all(T.isconst(a) and isinstance(a[1], (str, int)) and not isinstance(a[1], bool) for a in args) \
                and all(T.isconst(v) and isinstance(v[1], (str, int)) and not isinstance(v[1], bool) for v in kw.values()):
            try:
                return C(recv[1].format(*[a[1] for a in args], **{k: v[1] for k, v in kw.items()}))      # constant template, constant string / integer fields
            except Exception:
                pass
        return T.call('str.format', (recv,) + tuple(args), kw)
    # ---- pandas
    if name == 'to_dict' and (a0 == C('records') or kw.get('orient') == C('records')):
        return ('records', recv)
    if name == 'rank' and tag == 'table' and not args and not kw:
        return ('table', tuple((c, T.call('rank', (v,))) for c, v in recv[1]), recv[2])       # DataFrame.rank() ranks every column on its own
    if name == 'rank':
        # pandas documents the defaults: method='average', ascending=True, na_option='keep', pct=False, axis=0: spelling a default out changes nothing
        dflt = {'method': C('average'), 'ascending': C(True), 'na_option': C('keep'), 'pct': C(False), 'axis': C(0), 'numeric_only': C(False)}
        kw = {k: v for k, v in kw.items() if dflt.get(k) != v}
        return T.call('rank', (recv,), kw)
    if name == 'rename' and 'columns' not in kw and kw.get('axis') in (C('columns'), C(1)) and (a0 is not None or 'mapper' in kw):
        # rename(mapper, axis='columns') == rename(columns=mapper)
        kw = dict({k: v for k, v in kw.items() if k not in ('axis', 'mapper')}, columns=a0 if a0 is not None else kw['mapper'])
    if name == 'rename' and 'columns' in kw:
        m = kw['columns']
        inplace = kw.get('inplace') == TRUE
        if tag == 'table' and m[0] == 'dict' and all(T.isconst(v) for _, v in m[1]):
            mm = {k: v[1] for k, v in m[1]}
            cols = {}
            for c, v in recv[1]:
                cols[mm.get(c, c)] = v
            new = ('table', tuple(sorted(cols.items())), recv[2])
        else:
            new = T.call('rename', (recv, m))
        if inplace:
            rebind(new)
            ctx.event('mutate', 'rename', (recv, m), guard=guard, loops=loops, where=where, extra={'target': ast.unparse(recv_node)})
            return NONE
        return new
    if name == 'drop' and a0 is None and 'columns' in kw:
        a0, args, kw = kw['columns'], [kw['columns']], dict({k: v for k, v in kw.items() if k != 'columns'}, axis=C(1))      # drop(columns=c) == drop(c, axis=1)
    if name == 'drop' and a0 is not None:
        axis = kw.get('axis', args[1] if len(args) > 1 else C(0))
        if axis == C('columns'):
            axis = C(1)
        inplace = kw.get('inplace') == TRUE
        new = T.call('dropcols' if axis == C(1) else 'droprows', (recv, a0))
        if tag == 'table' and axis == C(1) and a0[0] in ('list', 'tuple') and all(T.isconst(x) for x in a0[1]):
            drop = {x[1] for x in a0[1]}
            new = ('table', tuple((c, v) for c, v in recv[1] if c not in drop), recv[2])
        elif tag == 'table' and axis == C(1) and a0[0] == 'filtermap' and a0[1][0] == 'over' and a0[1][1][0] == 'keys' \
                and a0[1][1][1] is not None and a0[3][0] == 'idx' and a0[3][2][0] == 'lv':
            # df.drop([c for c in df.columns if pred(c)], axis=1) on a known schema: fold the predicate per column
            keep = []
            for c, v in recv[1]:
                r = T.subst(a0[2], lambda x, c=c, a0=a0: C(c) if x == a0[3] else None)
                r = _fold_strtests(r)
                if r == FALSE:
                    keep.append((c, v))
                elif r != TRUE:
                    keep = None
                    break
            if keep is not None:
                new = ('table', tuple(keep), recv[2])
        if inplace:
            rebind(new)
            ctx.event('mutate', 'drop', (recv, a0), guard=guard, loops=loops, where=where, extra={'target': ast.unparse(recv_node)})
            return NONE
        return new
    if name == 'get_loc':
        return T.call('get_loc', (recv,) + tuple(args))
    # ---- ndarray
    if name == 'flatten' and not args and not kw and recv[0] == 'nd' and recv[1][0] == 'list':
        inner = recv[1][1]                      # C-order flattening of a (nested) literal list
        if inner and all(x[0] == 'list' for x in inner):
            inner = tuple(y for x in inner for y in x[1])
        return ('nd', ('list', inner))
    if name == 'flatten':
        if recv[0] == 'shaped' and all(isinstance(d, int) for d in recv[2]):
            n_ = 1
            for d in recv[2]:
                n_ *= d
            return ('shaped', recv[1] + '.flat', (n_,))
        return T.call('flatten', (recv,), kw)
    if name == 'join' and recv[0] == 'table' and len(args) == 1 and not kw and args[0][0] == 'table' and recv[2] == args[0][2] \
            and not set(dict(recv[1])) & set(dict(args[0][1])):
        # df.join(other): two tables over the same rows (same row count term, both built in this function on the default index), disjoint column names:
        # the columns side by side, as pd.concat((df, other), axis=1)
        return ('table', tuple(sorted(dict(recv[1], **dict(args[0][1])).items())), recv[2])
    if name == 'reshape':
        shp = args[0][1] if len(args) == 1 and args[0][0] == 'tuple' else tuple(args)
        if not kw and recv[0] == 'nd' and recv[1][0] == 'list' and len(shp) == 2 and all(T.isnum(d) and isinstance(d[1], int) and d[1] >= 0 for d in shp) \
                and not any(x[0] == 'list' for x in recv[1][1]) and shp[0][1] * shp[1][1] == len(recv[1][1]):
            a_, b_ = shp[0][1], shp[1][1]            # C-order reshape of a flat literal list to (a, b)
            return ('nd', ('list', tuple(('nd', ('list', recv[1][1][i * b_:(i + 1) * b_])) for i in range(a_))))
        return T.call('reshape', (recv,) + tuple(args), kw)
    if name == 'nonzero':
        return ('tuple', (T.call('flatnonzero', (recv,)),))
    if name == 'ravel' and not args and not kw:
        return method(fr, recv, recv_node, 'flatten', args, kw, extra, n)       # the same values in the same (C) order; only view-ness differs
    if name in ('any', 'all', 'sum', 'mean', 'min', 'max', 'argmax', 'argmin'):
        return T.call(name, (recv,) + tuple(args), kw)
    if name in ('imap', 'map', 'starmap', 'imap_unordered', 'apply_async', 'map_async', 'starmap_async', 'apply'):
        ctx.event('call', 'pool.' + name, args, kw, guard=guard, loops=loops, where=where, extra={'pool': recv})
        return ('poolresult', name, a0 if a0 is not None else NONE, args[1] if len(args) > 1 else NONE)
    if name == 'tqdm':
        ctx.event('call', 'tqdm', (recv,) + tuple(args), kw, guard=guard, loops=loops, where=where)
        return ('wrapped', 'tqdm', a0)
    ctx.event('call', 'method.' + name, (recv,) + tuple(args), kw, guard=guard, loops=loops, where=where)
    if name not in SE.MODELLED:
        ctx.unmodelled.add('method.' + name)
    return T.call('method.' + name, (recv,) + tuple(args), kw)


def _fold_strtests(t):
    def f(x):
        if x[0] == 'strtest' and T.isconst(x[2]) and T.isconst(x[3]):
            return C(getattr(x[2][1], x[1])(x[3][1]))
        if x[0] == 'cmp' and x[1] in ('In', 'NotIn') and T.isconst(x[2]) and T.isconst(x[3]) and isinstance(x[3][1], str):
            r = x[2][1] in x[3][1]
            return C(r if x[1] == 'In' else not r)
        return None
    return T.subst(t, f)
