"""L3: flow-sensitive alias / effect analysis with per-function summaries closed over the call graph.

Abstract objects
    ('F',)            fresh: allocation, deepcopy, DataFrame.copy(), arithmetic, df[mask], df.iloc[..], pd.concat ...
    ('P', name)       the object the caller passed for parameter ``name``
    ('Sub', root)     something reachable from container ``root`` (element, value, attribute)
    ('Sh', root)      shallow copy of ``root`` (dict.copy(), list(x), dict(x)): own top level, shared children
    ('V', root)       ndarray view of ``root`` (basic slice, reshape, swapaxes): writes go through
    ('RO', root)      read-only ndarray obtained from a pandas object (.values / .to_numpy() / np.asarray) -- armed for pandas >= 3
    ('Tmp', root)     copy-on-write temporary (df[col], df[col][..]): a store through it is LOST
    ('Self', attr) / ('SelfObj',) / ('G', name) / ('Lit', kids) / ('FuncRef', qual) / ('Partial', ..)

Recorded per function: writes through parameters / self attributes / globals (subscript or attribute store, del,
augmented assignment on containers, mutator methods, inplace=True, passing to a callee whose summary writes), lost
updates, writes to read-only views.  Objects sent through Pool.* are pickled: no effect flows back.
"""
import ast
import builtins

F = ('F',)
MUTATORS = {'pop', 'update', 'setdefault', 'clear', 'append', 'extend', 'insert', 'remove', 'sort', 'popitem', 'fill', 'put',
            'reverse', 'resize', 'itemset', 'setflags', 'partition', 'sort_values_inplace'}
INPLACE_KW = {'rename', 'reset_index', 'drop', 'sort_values', 'fillna', 'set_index', 'drop_duplicates', 'dropna', 'replace',
              'sort_index', 'clip', 'where', 'mask', 'interpolate', 'ffill', 'bfill', 'set_axis', 'rename_axis', 'query', 'eval'}
VIEW_METH = {'reshape', 'swapaxes', 'ravel', 'squeeze', 'transpose', 'view'}
POOL_METH = {'imap', 'map', 'starmap', 'imap_unordered', 'apply_async', 'map_async', 'starmap_async', 'apply'}
NP_VIEW = {'swapaxes', 'reshape', 'squeeze', 'ravel', 'transpose', 'atleast_1d', 'atleast_2d', 'moveaxis', 'rollaxis', 'broadcast_to', 'expand_dims'}
NP_ALIAS = {'asarray', 'asanyarray', 'ascontiguousarray'}
SELF_KINDS = {'thresholds': 'dict', 'burst_kwargs': 'dict', 'find_extrema_kwargs': 'dict', 'df_features': 'df', 'sig': 'nd',
              'sigs': 'nd', 'models': 'list'}
# per-class overrides: BycycleGroup.fit stores the result of compute_features_2d / _3d, documented as "list of pandas.DataFrame"
# (nested lists for 3-D), so self.df_features[i][j] = ... is a list store there, not a chained pandas assignment
CLASS_SELF_KINDS = {'BycycleGroup': {'df_features': 'list'}}
BUILTINS = set(dir(builtins))


def P(n):
    return ('P', n)


def root(o):
    while o[0] in ('Sub', 'Sh', 'V', 'RO', 'Tmp'):
        o = o[1]
    return o


def Sub(o):
    if o[0] in ('F',):
        return o
    if o[0] in ('RO', 'Tmp'):
        return o
    return ('Sub', root(o))


def Sh(o):
    return ('Sh', root(o)) if o[0] != 'F' else F


def View(o):
    if o[0] in ('F', 'RO', 'Tmp'):
        return o
    return ('V', root(o))


def writes_through(o):
    """root object whose owner observes a mutation of ``o`` (None for private objects)"""
    if o[0] == 'NotC':
        return None            # known not to be a container on this path (None / failed isinstance): a store would raise
    if o[0] in ('P', 'Self', 'G'):
        return o
    if o[0] in ('Sub', 'V'):
        r = root(o)
        return r if r[0] in ('P', 'Self', 'G') else None
    return None


class Analysis:
    def __init__(self, model, fn, summaries, ro_armed=True):
        self.model, self.fn, self.summ, self.ro_armed = model, fn, summaries, ro_armed
        self.env, self.kind = {}, {}
        self.ctor_calls = []            # (line, class, {constructor parameter: abstract objects passed})
        self.mut = set()        # (root object, node lineno, construct, via)
        self.direct = set()     # parameters whose OWN top level is written (not merely something reachable from them)
        self.deep = set()       # parameters through which something *below* their top level is written (an element, a nested dictionary)
        self.lost = []          # (lineno, construct)
        self.rowrite = []       # (lineno, construct, via)
        self.retobjs = set()
        self.globals_written = []
        self.ambient = []       # calls to RNG / clock / environment
        for p in fn.params + fn.kwonly:
            self.env[p] = {('SelfObj',)} if p == 'self' and fn.cls else {P(p)}
            self.kind[p] = fn.kinds.get(p) or _name_kind(p)
        if fn.vararg:
            self.env[fn.vararg] = {F}
        if fn.kwarg:
            self.env[fn.kwarg] = {F}
            self.kind[fn.kwarg] = 'dict'

    # ------------------------------------------------------------------ kinds
    def k(self, n):
        if isinstance(n, ast.Name):
            return self.kind.get(n.id)
        if isinstance(n, (ast.Dict, ast.DictComp)):
            return 'dict'
        if isinstance(n, (ast.List, ast.ListComp)):
            return 'list'
        if isinstance(n, ast.Attribute):
            if n.attr == 'values':
                return 'nd' if self.k(n.value) in ('df', 'series', None) else None
            if n.attr in ('iloc', 'loc', 'at', 'iat'):
                return 'dfindexer'
            if n.attr == 'columns':
                return 'index'
            if n.attr == 'T':
                return self.k(n.value)
            if isinstance(n.value, ast.Name) and n.value.id == 'self':
                cls = (self.fn.cls or '').rsplit('.', 1)[-1]
                return CLASS_SELF_KINDS.get(cls, {}).get(n.attr, SELF_KINDS.get(n.attr))
        if isinstance(n, ast.Subscript):
            b = self.k(n.value)
            if b == 'dfindexer':
                return 'df'
            if b == 'df':
                s = n.slice
                if isinstance(s, ast.Constant) and isinstance(s.value, str):
                    return 'series'
                if isinstance(s, ast.BinOp) and isinstance(s.op, ast.Add):
                    return 'series'          # 'sample_' + name
                if isinstance(s, ast.Name) and self.kind.get(s.id) in (None, 'opt', 'str') and not self._masklike(s):
                    return 'series'
                if isinstance(s, ast.List):
                    return 'df'
                return 'df'
            if b == 'series':
                return 'series' if isinstance(n.slice, (ast.Slice, ast.Compare)) else 'num'
            if b == 'nd':
                return 'nd'
            if b == 'list':
                return 'elem'
            return None
        if isinstance(n, ast.Call):
            f = n.func
            if isinstance(f, ast.Attribute):
                if isinstance(f.value, ast.Name) and f.value.id == 'np':
                    return 'nd'
                if isinstance(f.value, ast.Name) and f.value.id == 'pd':
                    return 'df'
                if ast.unparse(f.value) == 'pd.DataFrame':
                    return 'df'
                if f.attr in ('copy', 'drop', 'rename', 'reset_index', 'astype', 'sort_values', 'fillna', 'head', 'tail', 'dropna'):
                    return self.k(f.value)
                if f.attr in ('to_numpy', 'flatten', 'ravel'):
                    return 'nd'
                if f.attr in ('to_dict', 'tolist'):
                    return 'list'
                if f.attr == 'pop' and self.k(f.value) == 'df':
                    return 'series'
            if isinstance(f, ast.Name):
                if f.id == 'deepcopy' and n.args:
                    return self.k(n.args[0])
                if f.id == 'list':
                    return 'list'
                if f.id == 'dict':
                    return 'dict'
                tgt = self.model.resolve(self.fn.mod, f.id)
                if isinstance(tgt, str) and tgt in self.model.funcs:
                    rk = self.model.funcs[tgt].retkinds
                    if rk:
                        return rk[0] if len(rk) == 1 else 'tuple'
        if isinstance(n, ast.UnaryOp):
            return self.k(n.operand)
        if isinstance(n, ast.BinOp):
            return self.k(n.left) or self.k(n.right)
        if isinstance(n, ast.IfExp):
            return self.k(n.body) or self.k(n.orelse)
        if isinstance(n, ast.Compare):
            return 'series' if self.k(n.left) in ('series', 'df') else 'nd' if self.k(n.left) == 'nd' else None
        return None

    def _masklike(self, s):
        return False

    # ------------------------------------------------------------------ objects of an expression
    def o(self, n):
        if isinstance(n, ast.Name):
            if n.id in self.env:
                return set(self.env[n.id])
            r = self.model.resolve(self.fn.mod, n.id)
            if isinstance(r, str) and r in self.model.funcs:
                return {('FuncRef', r)}
            if r is None and n.id not in BUILTINS and n.id in self.model.modassign.get(self.fn.mod, {}):
                return {('G', n.id)}
            return {F}
        if isinstance(n, ast.Constant):
            return {F}
        if isinstance(n, ast.Attribute):
            base = self.o(n.value)
            if ('SelfObj',) in base:
                return {('Self', n.attr)}
            kb = self.k(n.value)
            if n.attr == 'values' and kb in ('df', 'series'):
                return {('RO', root(b)) if b[0] != 'F' or True else F for b in base} if self.ro_armed else {View(b) for b in base}
            if n.attr in ('iloc', 'loc', 'at', 'iat', 'columns', 'shape', 'ndim', 'flags', 'index', 'dtype', 'size'):
                return base
            if n.attr == 'T':
                return {View(b) for b in base}
            return {Sub(b) for b in base}
        if isinstance(n, ast.Subscript):
            base = self.o(n.value)
            kb = self.k(n.value)
            if kb == 'dfindexer':
                return {F}
            if kb in ('df', 'series'):
                # copy-on-write: df[col], df[mask], series[i:j] are new objects w.r.t. mutation
                return {('Tmp', root(b)) if b[0] != 'F' else ('Tmp', F) for b in base}
            if kb == 'nd':
                if isinstance(n.slice, ast.Slice) or (isinstance(n.slice, ast.Tuple) and any(isinstance(e, ast.Slice) for e in n.slice.elts)):
                    return {View(b) for b in base}
                return {F}
            return {Sub(b) for b in base}
        if isinstance(n, ast.BoolOp):
            out = set()                     # `a or b` / `a and b` evaluate to one of their operands
            for v in n.values:
                out |= self.o(v)
            return out
        if isinstance(n, (ast.BinOp, ast.UnaryOp, ast.Compare, ast.JoinedStr)):
            for c in ast.iter_child_nodes(n):
                if isinstance(c, ast.expr):
                    self.o(c)
            return {F}
        if isinstance(n, ast.IfExp):
            self.o(n.test)
            saved = {k: set(v) for k, v in self.env.items()}
            self.refine(n.test, True)
            a = self.o(n.body)
            self.env = {k: set(v) for k, v in saved.items()}
            self.refine(n.test, False)
            b = self.o(n.orelse)
            self.env = saved
            return a | b
        if isinstance(n, (ast.Dict, ast.List, ast.Tuple, ast.Set)):
            elts = n.values if isinstance(n, ast.Dict) else n.elts
            kids = set()
            for e in elts:
                if e is not None:
                    kids |= {x for x in self.o(e) if x != F}
            return {('Lit', tuple(sorted(kids, key=repr)))} if kids else {F}
        if isinstance(n, (ast.ListComp, ast.GeneratorExp, ast.DictComp, ast.SetComp)):
            saved = dict(self.env), dict(self.kind)
            for g in n.generators:
                self.bind_iter(g.target, g.iter)
                for c in g.ifs:
                    self.o(c)
            if isinstance(n, ast.DictComp):
                self.o(n.key)
                kids = self.o(n.value)
            else:
                kids = self.o(n.elt)
            self.env, self.kind = saved
            kids = {x for x in self.expand(kids) if x != F and x[0] not in ('Tmp',)}
            return {('Lit', tuple(sorted(kids, key=repr)))} if kids else {F}
        if isinstance(n, ast.Call):
            return self.call(n)
        if isinstance(n, ast.Starred):
            return self.o(n.value)
        if isinstance(n, ast.Lambda):
            return {F}
        return {F}

    def expand(self, objs):
        out = set()
        for x in objs:
            if x[0] == 'Lit':
                out |= set(x[1])
            else:
                out.add(x)
        return out

    # ------------------------------------------------------------------ calls
    def call(self, n):
        f = n.func
        argobjs = [self.o(a) for a in n.args]
        kwobjs = {}
        stars = []
        for k in n.keywords:
            v = self.o(k.value)
            if k.arg is None:
                stars.append(v)
            else:
                kwobjs[k.arg] = v
        if isinstance(f, ast.Attribute):
            name = f.attr
            modbase = isinstance(f.value, ast.Name) and f.value.id not in self.env and \
                isinstance(self.model.resolve(self.fn.mod, f.value.id), tuple)
            if modbase:
                dotted = self.model.resolve(self.fn.mod, f.value.id)[1] + '.' + name
                return self.external(dotted, n, argobjs, kwobjs)
            if isinstance(f.value, ast.Attribute) and isinstance(f.value.value, ast.Name) and f.value.value.id not in self.env:
                r = self.model.resolve(self.fn.mod, f.value.value.id)
                if isinstance(r, tuple) and r[0] == 'ext':
                    return self.external(f'{r[1]}.{f.value.attr}.{name}', n, argobjs, kwobjs)
            recv, rk = self.o(f.value), self.k(f.value)
            inplace = any(k.arg == 'inplace' and isinstance(k.value, ast.Constant) and k.value.value is True for k in n.keywords)
            if name in MUTATORS or (name in INPLACE_KW and inplace):
                self.write(recv, n, construct=f'{_root_text(f.value)}.{name}(...)', own=True)
                return {Sub(r) for r in recv} if name in ('pop', 'setdefault') else {F}
            if name == 'to_numpy' or (name in ('__array__',)):
                cp = any(k.arg == 'copy' and isinstance(k.value, ast.Constant) and k.value.value is True for k in n.keywords)
                if cp:
                    return {F}
                if rk in ('df', 'series', None):
                    return {('RO', root(b)) for b in recv} if self.ro_armed else {View(b) for b in recv}
                return {View(b) for b in recv}
            if name == 'copy':
                if rk in ('df', 'nd', 'series'):
                    return {F}
                deep = any(k.arg == 'deep' for k in n.keywords)
                return {Sh(r) for r in recv}
            if name in VIEW_METH:
                return {View(b) for b in recv}
            if name in POOL_METH:
                return {F}        # arguments are pickled into worker processes
            if name in ('get', 'items', 'values', 'keys', '__getitem__'):
                return {Sub(r) for r in recv}
            if ('SelfObj',) in recv:
                m = self.model.lookup_method(self.fn.cls, name) if self.fn.cls else None
                if m is not None:
                    return self.apply_summary(m.qual, [recv] + argobjs, kwobjs, n, stars)
            return {F}
        if isinstance(f, ast.Name):
            if f.id in self.env:
                out = set()
                for x in self.env[f.id]:
                    if x[0] == 'FuncRef':
                        out |= self.apply_summary(x[1], argobjs, kwobjs, n, stars)
                return out or {F}
            tgt = self.model.resolve(self.fn.mod, f.id)
            if isinstance(tgt, str) and tgt in self.model.funcs:
                return self.apply_summary(tgt, argobjs, kwobjs, n, stars)
            if isinstance(tgt, str) and tgt in self.model.classes:
                init = self.model.lookup_method(tgt, '__init__')
                if init is not None:
                    self.apply_summary(init.qual, [{F}] + argobjs, kwobjs, n, stars)
                    # which objects reach which constructor parameter (a starred argument may supply any parameter still unbound)
                    ps = [p for p in init.params if p != 'self']
                    plain = [a for a, node_ in zip(argobjs, n.args) if not isinstance(node_, ast.Starred)] if not any(isinstance(x, ast.Starred) for x in n.args) else []
                    bind = {p_: set(self.expand(a)) for p_, a in zip(ps, plain)}
                    bind.update({k_: set(self.expand(v)) for k_, v in kwobjs.items()})
                    for d in stars + [a for a, node_ in zip(argobjs, n.args) if isinstance(node_, ast.Starred)] + \
                            ([a for a, node_ in zip(argobjs, n.args) if not isinstance(node_, ast.Starred)] if any(isinstance(x, ast.Starred) for x in n.args) else []):
                        for p_ in ps + init.kwonly:
                            if p_ not in bind:
                                bind[p_] = {y for x in self.expand(d) for y in ([x] if x[0] != 'Lit' else list(x[1]))}
                    self.ctor_calls.append((n.lineno, tgt, bind))
                kids = set()
                for a in argobjs + list(kwobjs.values()):
                    kids |= {x for x in self.expand(a) if x != F}
                return {('Lit', tuple(sorted(kids, key=repr)))} if kids else {F}
            if isinstance(tgt, tuple) and tgt[0] == 'ext':
                return self.external(tgt[1], n, argobjs, kwobjs)
            if f.id in ('list', 'dict', 'tuple', 'set') and argobjs:
                return {Sh(b) for b in self.expand(argobjs[0])}
            if f.id in ('enumerate', 'zip', 'iter', 'reversed', 'next'):
                out = set()
                for a in argobjs:
                    out |= a
                return out
            if f.id == 'sorted':
                return {Sub(b) for a in argobjs for b in a}
            if f.id in ('getattr',) and argobjs:
                return {Sub(b) for b in argobjs[0]}
            if f.id == 'setattr' and argobjs:
                self.write(argobjs[0], n, construct='setattr(...)')
            return {F}
        if isinstance(f, ast.Call):
            self.o(f)
        return {F}

    def external(self, dotted, n, argobjs, kwobjs):
        name = dotted.rsplit('.', 1)[-1]
        top = dotted.split('.')[0]
        a0 = argobjs[0] if argobjs else set()
        if dotted in ('copy.deepcopy',):
            return {F}
        if dotted == 'copy.copy':
            return {Sh(b) for b in a0}
        if dotted == 'functools.partial':
            return {('Partial',)}
        if top == 'numpy':
            if name in NP_VIEW:
                return {View(b) for b in a0}
            if name in NP_ALIAS:
                k0 = self.k(n.args[0]) if n.args else None
                if k0 in ('df', 'series'):
                    return {('RO', root(b)) for b in a0} if self.ro_armed else {View(b) for b in a0}
                return {View(b) for b in a0}
            if name == 'array' and n.args and self.k(n.args[0]) in ('list', 'dictorlist', 'elem', None):
                cp = not any(k.arg == 'copy' and isinstance(k.value, ast.Constant) and k.value.value is False for k in n.keywords)
                return {Sh(b) for b in self.expand(a0)} if cp else {View(b) for b in a0}
            out_kw = kwobjs.get('out')
            if out_kw:
                self.write(out_kw, n, construct=f'np.{name}(out=...)')
            if 'random' in dotted.split('.'):
                self.ambient.append((n.lineno, dotted))
            if name in ('put', 'place', 'copyto', 'fill_diagonal', 'putmask') and argobjs:
                self.write(a0, n, construct=f'np.{name}(...)')
            return {F}
        if top in ('random', 'time', 'datetime', 'os', 'secrets', 'uuid') and name not in ('join', 'path', 'exists', 'mkdir'):
            self.ambient.append((n.lineno, dotted))
        return {F}

    def apply_summary(self, q, argobjs, kwobjs, n, stars):
        fn = self.model.funcs[q]
        s = self.summ.get(q, {'mut': set(), 'ret': {F}, 'selfmut': set(), 'rowrite_params': set()})
        params = list(fn.params)
        bind = {}
        for p, a in zip(params, argobjs):
            bind[p] = a
        for k, v in kwobjs.items():
            bind[k] = v
        for d in stars:
            for p in params + fn.kwonly:
                if p not in bind:
                    bind[p] = {Sub(x) for x in self.expand(d)}
        short = q.rsplit('.', 1)[-1]
        for p in s['mut']:
            if p in bind:
                self.write(self.expand(bind[p]), n, via=f'{short}({p})', construct=f'{short}(... {p} ...)', direct_ok=p in s.get('direct', ()),
                           nested=p in s.get('deep', ()))
        if fn.cls and params[:1] == ['self'] and 'self' in bind:
            for attr in s.get('selfmut', ()):
                for b in bind['self']:
                    if b == ('SelfObj',):
                        self.write({('Self', attr)}, n, via=f'{short}(self.{attr})', construct=f'self.{short}(...)')
        out = set()
        for r in s['ret']:
            if r == F:
                out.add(F)
            elif r[0] == 'P' and r[1] in bind:
                out |= bind[r[1]]
            elif root(r)[0] == 'P' and root(r)[1] not in bind and isinstance(fn.defaults.get(root(r)[1]), (ast.Dict, ast.List, ast.Set, ast.Call)):
                # the callee hands out its mutable default: one object shared by every call
                out.add(('G', f'{short}.<default {root(r)[1]}>'))
            elif r[0] in ('Sub', 'V', 'Sh', 'RO', 'Tmp') and root(r)[0] == 'P' and root(r)[1] in bind:
                for b in self.expand(bind[root(r)[1]]):
                    out.add(F if b[0] == 'F' and r[0] != 'RO' else (r[0], root(b)))
            elif r[0] in ('RO', 'Tmp'):
                out.add(r)
            else:
                out.add(F)
        return out or {F}

    # ------------------------------------------------------------------ writes
    def write(self, objs, node, via=None, construct=None, direct_ok=True, own=False, nested=False):
        """``own``: the write changes the object itself (d.pop(k), d[k] = v, del d[k], x += ..): a container display is then a fresh object of this
        function - its elements are not written; without it (a callee that may reach into its argument) the elements of a display count as written"""
        construct = construct or _norm(node)
        if own:
            objs = {x for x in objs if x[0] != 'Lit'}
        for x in self.expand(objs):
            if x[0] == 'P' and direct_ok:
                self.direct.add(x[1])
            if x[0] == 'RO':
                self.rowrite.append((node.lineno, construct, via))
            if x[0] == 'Tmp' and via is None:
                self.lost.append((node.lineno, construct))
            w = writes_through(x)
            if w is None and nested and x[0] == 'Sh' and root(x)[0] in ('P', 'Self', 'G'):
                w = root(x)         # the callee writes below the top level of what it is given: a shallow copy shares everything below its top level with the original
            if w and w[0] == 'P' and (nested or x[0] in ('Sub', 'V')):
                self.deep.add(w[1])
            if w:
                self.mut.add((w, node.lineno, construct, via))

    def store(self, tgt, node):
        if isinstance(tgt, ast.Subscript):
            base = tgt.value
            if isinstance(base, ast.Attribute) and base.attr in ('loc', 'iloc', 'at', 'iat'):
                objs = self.o(base.value)
            else:
                objs = self.o(base)
            self.write(objs, node, construct=_norm_target(tgt), own=True)
        elif isinstance(tgt, ast.Attribute):
            objs = self.o(tgt.value)
            if ('SelfObj',) in objs:
                self.mut.add((('SelfAssign', tgt.attr), node.lineno, f'self.{tgt.attr} = ...', None))
            else:
                self.write(objs, node, construct=_norm_target(tgt))
        elif isinstance(tgt, (ast.Tuple, ast.List)):
            for e in tgt.elts:
                if not isinstance(e, ast.Name):
                    self.store(e, node)

    # ------------------------------------------------------------------ statements
    def run(self):
        self.block(self.fn.node.body)
        return self

    def block(self, body):
        for s in body:
            self.stmt(s)

    def bind(self, t, objs, kind):
        if isinstance(t, ast.Name):
            # a copy-on-write temporary bound to a name is an ordinary private object from then on
            objs = {F if x[0] == 'Tmp' else x for x in objs}
            self.env[t.id] = objs
            self.kind[t.id] = kind
        elif isinstance(t, (ast.Tuple, ast.List)):
            for e in t.elts:
                self.bind(e, {Sub(x) if x[0] != 'F' else F for x in self.expand(objs)}, None)
        elif isinstance(t, ast.Starred):
            self.bind(t.value, objs, kind)

    def bind_iter(self, target, it_node):
        it = self.o(it_node)
        kk = self.k(it_node)
        is_range = isinstance(it_node, ast.Call) and isinstance(it_node.func, ast.Name) and it_node.func.id == 'range'
        if kk in ('df', 'series', 'nd') or is_range:
            elem = {F}
        else:
            elem = {Sub(x) if x[0] != 'F' else F for x in self.expand(it)}
        ek = None
        if kk in ('list', 'dictorlist') and ('kw' in ast.unparse(it_node)):
            ek = 'dict'
        if kk == 'list' and 'df' in ast.unparse(it_node):
            ek = 'df'
        self.bind(target, elem, ek)

    def refine(self, test, truth):
        """type-guard refinement: on a path where ``x`` is known to be None / not a container, stores through x cannot happen"""
        if isinstance(test, ast.UnaryOp) and isinstance(test.op, ast.Not):
            return self.refine(test.operand, not truth)
        if isinstance(test, ast.BoolOp):
            conj = isinstance(test.op, ast.And)
            if conj == truth:                 # (A and B) true -> both ; (A or B) false -> both false
                for v in test.values:
                    self.refine(v, truth)
            return
        name, is_container = None, None
        if isinstance(test, ast.Call) and isinstance(test.func, ast.Name) and test.func.id == 'isinstance' and len(test.args) == 2 \
                and isinstance(test.args[0], ast.Name):
            name, is_container = test.args[0].id, truth
        elif isinstance(test, ast.Call) and isinstance(test.func, ast.Name) and test.func.id == 'isinstance' and len(test.args) == 2 \
                and isinstance(test.args[0], ast.Attribute) and isinstance(test.args[0].value, ast.Name) and test.args[0].value.id == 'self':
            name, is_container = 'self.' + test.args[0].attr, truth
        elif isinstance(test, ast.Compare) and len(test.ops) == 1 and isinstance(test.left, ast.Name) \
                and isinstance(test.comparators[0], ast.Constant) and test.comparators[0].value is None:
            if isinstance(test.ops[0], (ast.Is, ast.Eq)):
                name, is_container = test.left.id, not truth
            elif isinstance(test.ops[0], (ast.IsNot, ast.NotEq)):
                name, is_container = test.left.id, truth
        if name is None or name not in self.env:
            return
        if is_container:
            self.env[name] = {x for x in self.env[name] if x[0] != 'NotC'} or {F}
        else:
            self.env[name] = {('NotC', root(x)) if x[0] != 'F' else F for x in self.env[name]}

    def stmt(self, s):
        if isinstance(s, ast.Assign):
            objs, kind = self.o(s.value), self.k(s.value)
            for t in s.targets:
                if isinstance(t, (ast.Name,)):
                    self.bind(t, objs, kind)
                elif isinstance(t, (ast.Tuple, ast.List)) and all(isinstance(e, (ast.Name, ast.Tuple, ast.List, ast.Starred)) for e in t.elts):
                    self.bind(t, objs, kind)
                else:
                    self.store(t, s)
                    if isinstance(t, ast.Attribute) and isinstance(t.value, ast.Name) and t.value.id == 'self':
                        # which object a settings attribute holds at exit (the caller's own, or a private one): kept in the environment so that it is
                        # merged over branches like a local name
                        self.env['self.' + t.attr] = set(self.expand(objs)) or {F}
        elif isinstance(s, ast.AnnAssign):
            if s.value is not None:
                self.bind(s.target, self.o(s.value), self.k(s.value)) if isinstance(s.target, ast.Name) else self.store(s.target, s)
        elif isinstance(s, ast.AugAssign):
            self.o(s.value)
            if isinstance(s.target, ast.Name):
                if self.kind.get(s.target.id) in ('nd', 'df', 'series', 'list', 'dict'):
                    self.write(self.o(s.target), s, construct=f'{s.target.id} {_OP.get(type(s.op).__name__, "?")}= ...', own=True)
            else:
                self.store(s.target, s)
        elif isinstance(s, ast.Delete):
            for t in s.targets:
                if isinstance(t, ast.Subscript):
                    self.write(self.o(t.value), s, construct=f'del {_norm_target(t)}', own=True)
        elif isinstance(s, ast.Expr):
            self.o(s.value)
        elif isinstance(s, ast.Return):
            if s.value is not None:
                self.retobjs |= self.expand(self.o(s.value))
        elif isinstance(s, ast.If):
            self.o(s.test)
            e0, k0 = {k: set(v) for k, v in self.env.items()}, dict(self.kind)
            self.refine(s.test, True)
            self.block(s.body)
            e1, k1 = self.env, self.kind
            self.env, self.kind = {k: set(v) for k, v in e0.items()}, dict(k0)
            self.refine(s.test, False)
            self.block(s.orelse)
            for k in set(e1) | set(self.env):
                self.env[k] = self.env.get(k, set()) | e1.get(k, set())
                self.kind[k] = self.kind.get(k) or k1.get(k)
        elif isinstance(s, (ast.For, ast.While)):
            for _ in range(2):
                if isinstance(s, ast.For):
                    self.bind_iter(s.target, s.iter)
                else:
                    self.o(s.test)
                self.block(s.body)
            self.block(s.orelse)
        elif isinstance(s, ast.With):
            for it in s.items:
                self.o(it.context_expr)
                if it.optional_vars is not None:
                    self.bind(it.optional_vars, {F}, None)
            self.block(s.body)
        elif isinstance(s, ast.Try):
            self.block(s.body)
            for h in s.handlers:
                self.block(h.body)
            self.block(s.orelse)
            self.block(s.finalbody)
        elif isinstance(s, ast.Global):
            self.globals_written.append((s.lineno, ','.join(s.names)))
        elif isinstance(s, (ast.Raise, ast.Assert)):
            for c in ast.iter_child_nodes(s):
                if isinstance(c, ast.expr):
                    self.o(c)


_OP = {'Add': '+', 'Sub': '-', 'Mult': '*', 'Div': '/', 'BitAnd': '&', 'BitOr': '|', 'FloorDiv': '//', 'Mod': '%', 'Pow': '**'}


def _name_kind(p):
    """the repository's naming convention, used only when a parameter has no numpydoc entry"""
    if p == 'df' or p.startswith('df_'):
        return 'df'
    if p.startswith('dfs_'):
        return 'list'
    if p in ('sig', 'sigs', 'times', 'peaks', 'troughs', 'rises', 'decays', 'is_burst'):
        return 'nd'
    if p.endswith('_kwargs') or p == 'thresholds':
        return 'dict'
    return None


def _root_text(n):
    return ast.unparse(n)


def _norm(node):
    return ' '.join(ast.unparse(node).split())[:100]


def _norm_target(t):
    return ' '.join(ast.unparse(t).split())[:80] + ' = ...'


def summarise(model, ro_armed=True, max_rounds=8):
    summ = {q: {'mut': set(), 'ret': {F}, 'selfmut': set(), 'direct': set(), 'deep': set()} for q in model.funcs}
    details = {}
    rounds = 0
    for rounds in range(1, max_rounds + 1):
        changed = False
        for q, fn in model.funcs.items():
            a = Analysis(model, fn, summ, ro_armed).run()
            mut = {w[1] for (w, *_r) in a.mut if w[0] == 'P'}
            selfmut = {w[1] for (w, *_r) in a.mut if w[0] == 'Self'}
            ret = set()
            for r in a.retobjs:
                if r[0] == 'P' or (r[0] in ('Sub', 'V', 'Sh', 'Tmp') and root(r)[0] == 'P') or r[0] == 'RO':
                    ret.add(r)
                else:
                    ret.add(F)
            new = {'mut': mut, 'ret': ret or {F}, 'selfmut': selfmut, 'direct': set(a.direct) & mut, 'deep': set(a.deep) & mut}
            if new != summ[q]:
                summ[q] = new
                changed = True
            details[q] = a
        if not changed:
            break
    return summ, details, rounds


def pandas_major():
    from .srcmodel import installed_versions
    v = installed_versions().get('pandas', '0')
    try:
        return int(v.split('.')[0])
    except ValueError:
        return 0
