#!/venv/bin/python
"""CLI: run the static rules of one property (or all) against a source tree.

  /venv/bin/python sa/check.py --property C04 --tier quick [--root /repo]

exit 0: every rule instance discharged;  exit 1 + "VIOLATION property=<id> replay=<path>": an understood
construct contradicts a rule;  exit 2 + "ANALYSIS-ERROR": an anchor vanished or an unmodelled construct
sits on the path of a pinned observable (never a silent pass, never reported as a violation).
"""
import argparse
import importlib
import os
import sys
import traceback

HERE = os.path.dirname(os.path.abspath(__file__))
sys.path.insert(0, os.path.dirname(HERE))

from sa.report import Report            # noqa: E402
from sa.srcmodel import AnalysisError   # noqa: E402
from sa import engine                   # noqa: E402


def run_property(pid, tier, root):
    rep = Report(pid, tier, root)
    try:
        model = engine.repo_model(root)
        rep.analysed.update(model.inventory())
        from sa.srcmodel import installed_versions
        rep.analysed['dependency_versions'] = installed_versions()
        mod = importlib.import_module(f'sa.rules.{pid.lower()}')
        mod.check(rep, model, tier)
    except AnalysisError as e:
        rep.unresolved('ENGINE', 'analysis', '-', str(e))
    except Exception as e:      # an internal error is never a verdict
        tb = traceback.format_exc().strip().splitlines()
        rep.unresolved('ENGINE', 'internal-error', '-', f'{type(e).__name__}: {e} | ' + ' | '.join(tb[-6:]))
    return rep.finish()


def main():
    ap = argparse.ArgumentParser()
    ap.add_argument('--property', required=True)
    ap.add_argument('--tier', default=os.environ.get('VERIF_TIER', 'quick'), choices=['quick', 'thorough'])
    ap.add_argument('--root', default='/repo')
    ap.add_argument('--replay')
    a = ap.parse_args()
    if a.replay:
        import json
        d = json.load(open(a.replay))
        for v in d['violations']:
            print(f"{v['site']}: rule {v['rule']} instance {v['instance']}\n    expected: {v['expected']}\n    found:    {v['found']}")
        a.property = d['property']
    pids = [f'C{i:02d}' for i in range(1, 21)] if a.property == 'all' else [a.property]
    rc = 0
    for pid in pids:
        r = run_property(pid, a.tier, a.root)
        rc = max(rc, r) if rc != 1 else 1
        if r == 1:
            rc = 1
    sys.exit(rc)


if __name__ == '__main__':
    main()
