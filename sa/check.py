#!/venv/bin/python
"""CLI: run the static rules of one property (or all) against a source tree.

  /venv/bin/python sa/check.py --property C04 --tier quick [--root /repo]

exit 0: every rule instance discharged;  exit 1 + "VIOLATION property=<id> replay=<path>": an understood
construct contradicts a rule;  exit 2 + "ANALYSIS-ERROR": an anchor vanished or an unmodelled construct
sits on the path of a pinned observable (never a silent pass, never reported as a violation).
"""
import argparse
import importlib
import os
import sys
import traceback

HERE = os.path.dirname(os.path.abspath(__file__))
sys.path.insert(0, os.path.dirname(HERE))

from sa.report import Report            # noqa: E402
from sa.srcmodel import AnalysisError   # noqa: E402
from sa import engine                   # noqa: E402


class AnalysisTimeout(BaseException):
    pass


def _on_alarm(signum, frame):
    raise AnalysisTimeout()


# clauses every functional property depends on, whichever function a change is made in: the object front end is the functional analysis, and
# nothing on the analysis path keeps state between calls
FRONT_END_PROPS = ('C01', 'C04', 'C05', 'C06', 'C07', 'C09', 'C10')
HISTORY_ROOTS = {
    'C01': ['compute_features'], 'C02': ['find_extrema'], 'C03': ['find_zerox'], 'C04': ['compute_features', 'compute_shape_features', 'rename_extrema_df'],
    'C05': ['compute_features', 'compute_burst_features'], 'C06': ['compute_features', 'detect_bursts_cycles'], 'C07': ['compute_features', 'detect_bursts_amp'],
    'C08': ['check_min_burst_cycles'], 'C09': ['compute_features', 'rename_extrema_df'], 'C10': ['compute_features'],
    'C16': ['recompute_edges'], 'C17': ['extrema_interpolated_phase'], 'C18': ['limit_df', 'limit_signal', 'drop_samples_df', 'split_samples_df', 'flatten_dfs'],
    'C20': ['plot_burst_detect_summary', 'plot_burst_detect_param', 'plot_cyclepoints_array', 'plot_cyclepoints_df'],
}


# rules of another property that decide a clause this property depends on (the function lives in the other property's files, the behaviour is part of both)
BORROWED = {
    'C01': [('c03', ('MID-DEF', 'ZEROX-DEF', 'INDEX-DTYPE'), 'each row\'s midpoints must lie between the extrema they separate: they are the arrays find_zerox returns, fallbacks included'),
            ('c08', ('RAISES',), 'both detectors end in the run filter: an exception it raises for a valid table (few rows, a numpy-typed count) is "raises instead of returning a table"')],
    'C06': [('c13', ('RELABEL-ONLY-LIST',), 'with a per-epoch option list the epoch tables carry the labels of detect_bursts_cycles applied per epoch: its result must be what is stored')],
    'C12': [('c13', ('FLAT-ONCE', 'PARTITION'), 'axis 0 / 1: every slice goes through compute_features_2d(axis=None), whose flattening and epoching (epoch_df) C13 decides')],
    'C13': [('c08', ('SCHEMA',), 'per-epoch re-labelling runs the detectors, whose run filter C08 decides'),
            ('c06', ('LABEL-DEF',), 'per-epoch re-labelling with the cycles method is detect_bursts_cycles'),
            ('c07', ('LABEL-DEF',), 'per-epoch re-labelling with the amp method is detect_bursts_amp')],
    'C14': [('c12', ('SWAP-UNSWAP',), 'BycycleGroup.recompute_edges writes into the rows compute_features_3d returned: they must be lists'),
            ('c16', ('EDGE-DEF', 'EDGES-DEF'), 'the functional edge recomputation the object is measured against is the documented one: the object hands it tables of any '
                                               'origin (loaded, windowed), so it must recompute the edge cycles of whatever table it is given')],
    'C16': [('c06', ('LABEL-DEF',), 'the edited table is re-labelled by detect_bursts_cycles')],
    'C17': [('c03', ('MID-DEF', 'ZEROX-DEF', 'INDEX-DTYPE'), 'the midpoints the phase function indexes with are the arrays find_zerox returns')],
    'C19': [('c14', ('REDUCE',), 'the thresholds recompute_edges validates are the stored ones lowered by r, nothing else: a clipped or otherwise repaired value hides an out-of-range setting from the range check'),
            ('c01', ('PAIRING',), 'a documented option can only be rejected if it reaches its validator unchanged: compute_cyclepoints forwards find_extrema\'s options as given')],
}
FRONT_END_PROPS = FRONT_END_PROPS + ('C19',)
HISTORY_ROOTS.update({'C11': ['compute_features_2d'], 'C12': ['compute_features_3d'], 'C13': ['compute_features_2d', 'epoch_df'],
                      'C14': ['compute_features', 'compute_features_2d', 'compute_features_3d', 'recompute_edges'], 'C19': ['compute_features', 'compute_features_2d', 'compute_features_3d']})


def borrow(rep, model, tier, modname, rules, why):
    """run another property's rules and keep the instances of the named ones (their floors, assumptions and other rules are that property's business)"""
    import importlib
    mod = importlib.import_module(f'sa.rules.{modname}')
    before_i, rules0, floors0, assume0 = len(rep.instances), dict(rep.rules), dict(rep.floors), list(rep.assumptions)
    mod.check(rep, model, tier)
    kept = [i for i in rep.instances[before_i:] if i['rule'] in rules and i['status'] != 'unresolved' or (i['rule'] in rules and i['status'] == 'unresolved')]
    rep.instances[before_i:] = kept
    new_rules = {k: v for k, v in rep.rules.items() if k in rules and k not in rules0}
    rep.rules = dict(rules0)
    for k, v in new_rules.items():
        rep.rules[k] = f'{v} [borrowed from {modname.upper()}: {why}]'
    rep.floors, rep.assumptions = floors0, assume0


def shared_clauses(rep, model, pid, tier='quick'):
    from sa.rules import common
    for modname, rules, why in BORROWED.get(pid, ()):
        borrow(rep, model, tier, modname, rules, why)
    if pid in FRONT_END_PROPS:
        from sa.rules import c14
        c14.front_end(rep, model)
    if pid in HISTORY_ROOTS:
        common.no_history(rep, model, HISTORY_ROOTS[pid])
        common.value_identity(rep, model, HISTORY_ROOTS[pid])


def run_property(pid, tier, root):
    import signal
    rep = Report(pid, tier, root)
    # watchdog: symbolic evaluation of an unexpected construct must end in a verdict-free ANALYSIS-ERROR, never in a hang
    signal.signal(signal.SIGALRM, _on_alarm)
    signal.alarm(int(os.environ.get('VERIF_TIMEOUT', '600' if tier == 'quick' else '1800')))
    try:
        model = engine.repo_model(root)
        rep.analysed.update(model.inventory())
        from sa.srcmodel import installed_versions
        rep.analysed['dependency_versions'] = installed_versions()
        mod = importlib.import_module(f'sa.rules.{pid.lower()}')
        del engine.PYERRORS[:]
        mod.check(rep, model, tier)
        shared_clauses(rep, model, pid, tier)
        engine.report_pyerrors(rep)
    except AnalysisTimeout:
        rep.unresolved('ENGINE', 'timeout', '-', 'symbolic evaluation did not finish within the time budget (term blow-up on a construct outside the model)')
    except AnalysisError as e:
        rep.unresolved('ENGINE', 'analysis', '-', str(e))
    except Exception as e:      # an internal error is never a verdict
        tb = traceback.format_exc().strip().splitlines()
        rep.unresolved('ENGINE', 'internal-error', '-', f'{type(e).__name__}: {e} | ' + ' | '.join(tb[-6:]))
    signal.alarm(0)
    if tier == 'thorough' and not os.environ.get('VERIF_NO_SELFTEST') and not os.environ.get('VERIF_NO_EVIDENCE'):
        try:
            rep.notes['sensitivity_selftest'] = selftest(pid, root)
        except Exception as e:  # the self-test is information about the checker, never a verdict about the tree
            rep.notes['sensitivity_selftest'] = {'error': f'{type(e).__name__}: {e}'}
    return rep.finish()


def _variant_verdict(job):
    """Run the quick rules of one property on a scratch copy of the tree with one stored patch applied (in a worker process)."""
    pid, root, patch = job
    import shutil
    import subprocess
    import tempfile
    tmp = tempfile.mkdtemp(prefix='verif-selftest-')
    try:
        shutil.copytree(os.path.join(root, 'bycycle'), os.path.join(tmp, 'bycycle'),
                        ignore=shutil.ignore_patterns('__pycache__', 'tests', '*.pyc'))
        p = subprocess.run(['git', 'apply', '--exclude=bycycle/tests/*', patch], cwd=tmp, capture_output=True, text=True)
        if p.returncode != 0:
            return patch, {'applies': False}
        sub = Report(pid, 'quick', tmp)
        try:
            model = engine.repo_model(tmp)
            importlib.import_module(f'sa.rules.{pid.lower()}').check(sub, model, 'quick')
            shared_clauses(sub, model, pid, 'quick')
            engine.report_pyerrors(sub)
        except Exception as e:
            return patch, {'applies': True, 'error': f'{type(e).__name__}: {e}'}
        known = {k['key'] for k in sub.known['finding'] if k['property'] == pid and k['key']}      # listed findings are not alarms of the variant
        viol = sorted({i['rule'] for i in sub.instances if i['status'] == 'violated' and i.get('key') not in known})
        unres = sorted({i['rule'] for i in sub.instances if i['status'] == 'unresolved'})
        return patch, {'applies': True, 'violated_rules': viol, 'unresolved_rules': unres}
    finally:
        shutil.rmtree(tmp, ignore_errors=True)


def selftest(pid, root):
    """Sensitivity of this property's rules, measured on every run of the thorough tier against the *current* tree:
    each stored property-breaking patch (seeded/<pid>-*) must make the rules fire, each stored behaviour-preserving
    refactor (benign/<pid>-*) must leave them silent.  Patches that no longer apply to the current tree are skipped.
    The outcome is reported in the evidence and on stdout; it never changes the verdict about the tree."""
    import glob
    import json
    from concurrent.futures import ProcessPoolExecutor
    verif = os.path.dirname(HERE)
    residual = {}
    rp = os.path.join(verif, 'benign', 'RESIDUAL.json')
    if os.path.exists(rp):
        residual = json.load(open(rp))
    seeded = sorted(glob.glob(os.path.join(verif, 'seeded', f'{pid}-*', 'patch.diff')))
    benign = sorted(glob.glob(os.path.join(verif, 'benign', f'{pid}-*', 'patch.diff')))
    jobs = [(pid, root, p) for p in seeded + benign]
    out = {'seeded': {}, 'benign': {}}
    if not jobs:
        return out
    with ProcessPoolExecutor(min(8, len(jobs))) as ex:
        results = dict(ex.map(_variant_verdict, jobs))
    det = tot = sil = btot = 0
    for p in seeded:
        r = results[p]
        name = os.path.basename(os.path.dirname(p))
        out['seeded'][name] = r
        if r.get('applies') and 'error' not in r:
            tot += 1
            det += bool(r['violated_rules'])
    for p in benign:
        r = results[p]
        name = os.path.basename(os.path.dirname(p))
        if name in residual:
            r['documented_residual_false_alarm'] = residual[name]
        out['benign'][name] = r
        if r.get('applies') and 'error' not in r:
            btot += 1
            sil += not r['violated_rules'] and not r['unresolved_rules']
    out['summary'] = f'seeded breaking patches detected {det}/{tot}; behaviour-preserving refactors silent {sil}/{btot}'
    print(f'SELFTEST property={pid} {out["summary"]}')
    for name, r in list(out['seeded'].items()):
        if r.get('applies') and 'error' not in r and not r['violated_rules']:
            print(f'SELFTEST-WARNING property={pid} seeded patch {name} is not detected on this tree')
    return out


def main():
    ap = argparse.ArgumentParser()
    ap.add_argument('--property', required=True)
    ap.add_argument('--tier', default=os.environ.get('VERIF_TIER', 'quick'), choices=['quick', 'thorough'])
    ap.add_argument('--root', default='/repo')
    ap.add_argument('--replay')
    a = ap.parse_args()
    if a.replay:
        import json
        d = json.load(open(a.replay))
        for v in d['violations']:
            print(f"{v['site']}: rule {v['rule']} instance {v['instance']}\n    expected: {v['expected']}\n    found:    {v['found']}")
        a.property = d['property']
    pids = [f'C{i:02d}' for i in range(1, 21)] if a.property == 'all' else [a.property]
    rc = 0
    for pid in pids:
        r = run_property(pid, a.tier, a.root)
        rc = max(rc, r) if rc != 1 else 1
        if r == 1:
            rc = 1
    sys.exit(rc)


if __name__ == '__main__':
    main()
