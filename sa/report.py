"""Verdict bookkeeping: rule instances, evidence files, violation payloads, known findings."""
import json
import os
import re
import sys
import time

from . import terms as T

VERIF = os.path.dirname(os.path.dirname(os.path.abspath(__file__)))
EVIDENCE_DIR = os.path.join(VERIF, 'evidence')
KNOWN = os.path.join(VERIF, 'KNOWN_FINDINGS.txt')


def load_known():
    out = {'finding': [], 'fixed': []}
    if not os.path.exists(KNOWN):
        return out
    for ln in open(KNOWN, encoding='utf-8'):
        ln = ln.strip()
        if not ln or ln.startswith('#'):
            continue
        m = re.match(r'^(finding|fixed):\s+property=(C\d+)\s+(.*)$', ln)
        if not m:
            continue
        kind, pid, rest = m.groups()
        key = None
        mk = re.match(r'^key=(\S+)\s*(?:--|—)?\s*(.*)$', rest)
        if mk:
            key, rest = mk.group(1), mk.group(2)
        out[kind].append({'property': pid, 'key': key, 'text': rest})
    return out


def pointwise_equal(a, b, free=()):
    """two element-wise definitions over the same range are equal when their element bodies are: the body is compared with the element variable free, so conditions on
    that variable can be case-split (for one element the condition holds or it does not).  Only applied when no inner binder ranges over the same key"""
    if a == b:
        return True
    if a is None or b is None:
        return False
    if a[0] == b[0] and a[0] in ('tuple', 'list') and len(a) == 2 and len(b) == 2 and len(a[1]) == len(b[1]):
        return all(pointwise_equal(x, y, free) for x, y in zip(a[1], b[1]))
    if a[0] == 'map' and b[0] == 'map' and len(a) == 3 and len(b) == 3 and a[1] == b[1]:
        inner = [x for t in (a[2], b[2]) for x in T.walk(t) if x[0] in ('map', 'filtermap', 'concatmap', 'loopout') and len(x) > 1 and x[1] == a[1]]
        if inner:
            return False
        lvs = {x for t in (a[2], b[2]) for x in T.walk(t) if x[0] == 'lv' and x[1] == a[1] and x[2] == len(free)}
        return case_split_equal(a[2], b[2], allowed=tuple(free) + tuple(lvs)) or pointwise_equal(a[2], b[2], tuple(free) + tuple(lvs))
    return False


def case_split_equal(a, b, max_conds=4, allowed=()):
    """equality by case analysis over the (at most ``max_conds``) conditions of conditional sub-terms that mention no loop variable (or only the ``allowed`` ones,
    which the caller holds fixed)"""
    import itertools
    conds = []
    for t in (a, b):
        for x in T.walk(t):
            if x[0] == 'gamma' and x[1][0] != 'const' and not any(y[0] == 'lv' and y not in allowed for y in T.walk(x[1])):
                c = x[1][1] if x[1][0] == 'not' else x[1]
                if c not in conds:
                    conds.append(c)
    if not conds or len(conds) > max_conds:
        return False
    for vals in itertools.product((T.TRUE, T.FALSE), repeat=len(conds)):
        m = dict(zip(conds, vals))
        # a condition can contain another one (the rewrite is bottom-up): also key it by what it looks like once the inner ones are decided
        for c_ in sorted(conds, key=lambda t_: len(str(t_))):
            c2 = T.subst(c_, lambda y, m_=dict(m): m_.get(y) if y != c_ else None)
            if c2 != c_ and c2[0] != 'const':
                m.setdefault(c2, m[c_])

        def f(y):
            if y in m:
                return m[y]
            if y[0] == 'not' and y[1][0] == 'const':
                return T.not_(y[1])
            return None
        if T.subst(a, f) != T.subst(b, f):
            return False
    return True


class Report:
    def __init__(self, pid, tier, root):
        self.pid, self.tier, self.root = pid, tier, root
        self.t0 = time.time()
        self.instances = []
        self.rules = {}
        self.assumptions = []
        self.notes = {}
        self.floors = {}
        self.analysed = {}
        self.known = load_known()

    # ------------------------------------------------------------------ recording
    def rule(self, rid, text):
        self.rules[rid] = text

    def _add(self, status, rule, instance, site, nontrivial=True, **kw):
        self.instances.append(dict(status=status, rule=rule, instance=instance, site=site, nontrivial=nontrivial, **kw))

    def ok(self, rule, instance, site, found=None, nontrivial=True):
        self._add('discharged', rule, instance, site, nontrivial, found=_s(found))

    def violation(self, rule, instance, site, expected, found, key=None):
        self._add('violated', rule, instance, site, True, expected=_s(expected), found=_s(found), key=key or f'{rule}@{instance}')

    def unresolved(self, rule, instance, site, why):
        self._add('unresolved', rule, instance, site, True, why=why)

    def compare(self, rule, instance, site, impl, spec, unmodelled=()):
        """normal-form equality of an implementation term with a specification term"""
        impl, spec = T.strip_nd(impl), T.strip_nd(spec)
        if impl == spec:
            self.ok(rule, instance, site, found=impl)
            return True
        if impl is not None and spec is not None and case_split_equal(impl, spec):
            # the same value under every valuation of the loop-independent conditions both terms branch on: `f(a if c else b)` and
            # `f(a) if c else f(b)` are one definition written with the branch at different depths
            self.ok(rule, instance, site, found=impl)
            return True
        if impl is not None and spec is not None and pointwise_equal(impl, spec):
            # element-wise definitions over the same range whose element bodies agree under every valuation of the per-element conditions
            self.ok(rule, instance, site, found=impl)
            return True
        # A definitional rule certifies that the code is an instance of the documented definition.  A differing
        # normal form is a violation of that rule whether or not the deviating construct is in the model table
        # (the report says so); exit 2 is kept for vanished anchors / engine failures, where no normal form exists.
        bad = not_understood(impl, unmodelled)
        found = impl if not bad else ('opaque', f'{T.brief(impl, 420)}   [contains constructs outside the model table: {sorted(set(bad))[:4]}]')
        self.violation(rule, instance, site, expected=spec, found=found if not bad else found[1])
        return False

    def floor(self, what, found, minimum):
        self.floors[what] = (found, minimum)
        if found < minimum:
            self.unresolved('FLOOR', what, '-', f'{found} instances found, at least {minimum} confirmed by hand on the pinned tree: the rule would pass vacuously')

    # ------------------------------------------------------------------ finishing
    def finish(self):
        viol = [i for i in self.instances if i['status'] == 'violated']
        unres = [i for i in self.instances if i['status'] == 'unresolved']
        known_keys = {k['key']: k for k in self.known['finding'] if k['property'] == self.pid and k['key']}
        new_viol = []
        for v in viol:
            if v['key'] in known_keys:
                print(f"KNOWN-FINDING: property={self.pid} {v['key']} -- {known_keys[v['key']]['text']}")
                v['status'] = 'known-finding'
            else:
                new_viol.append(v)
        for i in self.instances:
            if i['status'] == 'discharged' and self.tier == 'thorough':
                print(f"  ok    {i['rule']:<18} {i['instance']}  [{i['site']}]")
        for u in unres:
            print(f"ANALYSIS-ERROR property={self.pid} rule={u['rule']} instance={u['instance']} site={u['site']}: {u['why']}")
        replay = os.path.join(EVIDENCE_DIR, f'{self.pid}.violation.json')
        if os.environ.get('VERIF_NO_EVIDENCE'):        # development trials on scratch trees: verdict only
            for v in new_viol:
                print(f"{v['site']}: rule {v['rule']} instance {v['instance']}\n    expected: {v['expected']}\n    found:    {v['found']}")
            if new_viol:
                print(f'VIOLATION property={self.pid} replay=-')
            return 1 if new_viol else 2 if unres else 0
        for v in new_viol:
            print(f"{v['site']}: rule {v['rule']} instance {v['instance']}\n    expected: {v['expected']}\n    found:    {v['found']}")
        if new_viol:
            os.makedirs(EVIDENCE_DIR, exist_ok=True)
            json.dump({'property': self.pid, 'root': self.root, 'violations': new_viol}, open(replay, 'w'), indent=1)
            print(f'VIOLATION property={self.pid} replay={replay}')
        elif os.path.exists(replay):
            os.remove(replay)
        self.write_evidence(len(new_viol), unres)
        n_ok = sum(i['status'] == 'discharged' for i in self.instances)
        print(f'[{self.pid}] tier={self.tier} rules={len(self.rules)} instances={len(self.instances)} discharged={n_ok} '
              f'violations={len(new_viol)} known={len(viol) - len(new_viol)} unresolved={len(unres)} wall={time.time() - self.t0:.2f}s')
        if new_viol:
            return 1
        if unres:
            return 2
        return 0

    def write_evidence(self, n_viol, unres):
        os.makedirs(EVIDENCE_DIR, exist_ok=True)
        insts = self.instances
        distinct = {(i['rule'], i['instance']) for i in insts if i.get('nontrivial')}
        samples = []
        seen_rules = set()
        for i in insts:
            if i['rule'] in seen_rules and len(samples) >= 6:
                continue
            seen_rules.add(i['rule'])
            s = {k: i[k] for k in ('rule', 'instance', 'site', 'status') if k in i}
            for k in ('found', 'expected', 'why'):
                if i.get(k):
                    s[k] = i[k][:400]
            samples.append(s)
            if len(samples) >= 14:
                break
        ev = {
            'property_id': self.pid,
            'tier': self.tier,
            'seed': int(os.environ.get('VERIF_SEED', '0') or 0),
            'level': 'other',
            'coverage': {
                'explanation': 'Static analysis of /repo\'s working tree (ast only; bycycle is never imported or run). Each rule '
                               'instance is a construct of the source (entry point, output column, call site, decision-table cell) '
                               'whose extracted normal form / effect summary / guard structure is compared with the property\'s oracle table. '
                               'Rules: ' + '; '.join(f'{k}: {v}' for k, v in self.rules.items()),
                'obligations': len(insts),
                'discharged': sum(i['status'] == 'discharged' for i in insts),
                'evaluations': max(len(insts), 1),
                'distinct_nontrivial': len(distinct),
                'rule': 'one evaluation per rule instance; an instance is non-trivial when its observable is a non-constant term / a '
                        'resolved call site / a reachable decision cell, i.e. the rule could have failed on it; distinct = distinct (rule, instance) pairs',
                'samples': samples or [{'note': 'no instances'}],
                'exhaustive': False,
                'rules_applied': sorted(self.rules),
                'instance_floors': {k: {'found': a, 'minimum': b} for k, (a, b) in self.floors.items()},
                'analysed': self.analysed,
                'unresolved': [{k: u[k] for k in ('rule', 'instance', 'site', 'why')} for u in unres][:20],
                'checker_cmd': f'/venv/bin/python sa/check.py --property {self.pid} --tier {self.tier}',
                'trusted_base': ['python ast', 'sa/models (numpy/pandas/neurodsp/multiprocessing behaviours, each citing what was read)',
                                 'sa/refspec (documented definitions transcribed as reference code)', 'the normaliser in sa/terms.py'],
            },
            'assumptions': self.assumptions,
            'wall_s': round(time.time() - self.t0, 3),
            'violations': n_viol,
        }
        ev['coverage'].update(self.notes)
        json.dump(ev, open(os.path.join(EVIDENCE_DIR, f'{self.pid}.json'), 'w'), indent=1, default=str)


def _s(x):
    if x is None:
        return None
    if isinstance(x, tuple):
        return T.brief(x, 600)
    return str(x)


def not_understood(t, unmodelled=()):
    bad = []
    um = {u.rsplit('.', 1)[-1] for u in unmodelled}
    for x in T.walk(t):
        if x[0] in ('opaque', 'undefined', 'noreturn'):
            bad.append(T.brief(x, 60))
        elif x[0] == 'call' and (x[1] in um or x[1].split('.')[-1] in um):
            bad.append(f'call {x[1]}')
    return bad
