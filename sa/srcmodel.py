"""L0 source model: load every non-test module of the package with ``ast``, index functions and
methods, resolve names through imports / re-exports / aliases / function-local imports.

Nothing here imports or executes the analysed package.
"""
import ast
import os
import re
import hashlib

PKG = 'bycycle'

# floors confirmed by hand on the pinned tree (0474f25 + fix commits): fewer means the loader lost
# sight of part of the package and every verdict would be vacuous.
MIN_MODULES = 28
MIN_FUNCTIONS = 55


class AnalysisError(Exception):
    """The analysis could not be carried out (anchor vanished, unmodelled construct...): exit 2."""


class Func:
    def __init__(self, mod, qual, node, cls=None, path=None):
        self.mod, self.qual, self.node, self.cls, self.path = mod, qual, node, cls, path
        self.name = node.name
        a = node.args
        self.posonly = [x.arg for x in a.posonlyargs]
        self.params = [x.arg for x in a.posonlyargs + a.args]
        self.kwonly = [x.arg for x in a.kwonlyargs]
        self.vararg = a.vararg.arg if a.vararg else None
        self.kwarg = a.kwarg.arg if a.kwarg else None
        nd = len(a.defaults)
        self.defaults = dict(zip(self.params[len(self.params) - nd:], a.defaults))
        for k, d in zip(a.kwonlyargs, a.kw_defaults):
            if d is not None:
                self.defaults[k.arg] = d
        self.doc = ast.get_docstring(node) or ''
        self.kinds, self.retkinds, self.options = parse_doc(self.doc)
        self.decorators = [ast.unparse(d) for d in node.decorator_list]

    def __repr__(self):
        return f'<Func {self.qual}>'

    @property
    def body(self):
        b = self.node.body
        if b and isinstance(b[0], ast.Expr) and isinstance(b[0].value, ast.Constant) and isinstance(b[0].value.value, str):
            return b[1:]
        return b

    def where(self, node=None):
        ln = getattr(node, 'lineno', self.node.lineno)
        return f'{self.path}:{ln}'


KIND_PAT = [(r'dataframe', 'df'), (r'list of dict', 'list'), (r'\bdict', 'dict'), (r'\barray', 'nd'),
            (r'\blist', 'list'), (r'\bstr\b|\{', 'opt'), (r'float|int|bool', 'num'), (r'tuple', 'tuple')]


def kind_of(txt):
    t = txt.lower()
    if 'dict or' in t and 'list of dict' in t:
        return 'dictorlist'
    if re.search(r'list of (pd\.|pandas\.)?dataframe', t):
        return 'list'
    for pat, k in KIND_PAT:
        if re.search(pat, t):
            return k
    return None


def parse_doc(doc):
    """numpydoc Parameters/Returns -> kinds; ``name : {'a', 'b'}`` -> documented option sets."""
    kinds, rets, options, sec = {}, [], {}, None
    lines = doc.splitlines()
    for i, ln in enumerate(lines):
        s = ln.strip()
        if i + 1 < len(lines) and s and set(lines[i + 1].strip()) == {'-'}:
            sec = s
            continue
        m = re.match(r'^(\*{0,2}\w+)\s*:\s*(.+)$', s)
        if m and not ln.startswith('        '):
            name = m.group(1).lstrip('*')
            if sec == 'Parameters':
                kinds[name] = kind_of(m.group(2))
                mo = re.match(r'^\{(.*)\}', m.group(2).strip())
                if mo:
                    try:
                        vals = ast.literal_eval('[' + mo.group(1) + ']')
                        options[name] = vals
                    except Exception:
                        pass
            elif sec == 'Returns':
                rets.append(kind_of(m.group(2)))
    return kinds, rets, options


def _simple_generator_to_genexp(fn):
    """a generator function whose body is one loop that yields one expression, possibly under ifs without else:

        def f(xs):                      def f(xs):
            for x in xs:        ==>         return (e(x) for x in xs if p(x))
                if p(x):
                    yield e(x)

    (the caller iterates it or hands it to list(): the same elements in the same order).  Rewritten when the module is loaded, so that every analysis sees an
    ordinary function; anything else that yields is left alone"""
    body = [b for b in fn.body if not (isinstance(b, ast.Expr) and isinstance(b.value, ast.Constant))]
    if len(body) != 1 or not isinstance(body[0], ast.For) or body[0].orelse:
        return
    loop = body[0]
    conds, inner = [], loop.body
    while len(inner) == 1 and isinstance(inner[0], ast.If) and not inner[0].orelse:
        conds.append(inner[0].test)
        inner = inner[0].body
    if len(inner) != 1 or not isinstance(inner[0], ast.Expr) or not isinstance(inner[0].value, ast.Yield) or inner[0].value.value is None:
        return
    if any(isinstance(x, (ast.Yield, ast.YieldFrom)) for c in conds for x in ast.walk(c)) or any(isinstance(x, (ast.Yield, ast.YieldFrom)) for x in ast.walk(inner[0].value.value)):
        return
    gen = ast.GeneratorExp(elt=inner[0].value.value, generators=[ast.comprehension(target=loop.target, iter=loop.iter, ifs=conds, is_async=0)])
    ret = ast.Return(value=gen)
    ast.copy_location(gen, loop)
    ast.copy_location(ret, loop)
    ast.fix_missing_locations(ret)
    fn.body = [b for b in fn.body if isinstance(b, ast.Expr) and isinstance(b.value, ast.Constant)] + [ret]


class Model:
    """All modules / functions of one source tree."""

    def __init__(self, root, pkg=PKG, enforce_floors=True, sources=None):
        self.root, self.pkg = root, pkg
        self.mods, self.paths, self.src = {}, {}, {}
        self.funcs, self.imports, self.classes = {}, {}, {}
        self.modassign = {}
        self.is_pkg = {}
        self._sources = sources
        self._load()
        if enforce_floors and (len(self.mods) < MIN_MODULES or len(self.funcs) < MIN_FUNCTIONS):
            raise AnalysisError(f'source model too small: {len(self.mods)} modules / {len(self.funcs)} functions '
                                f'(floors {MIN_MODULES}/{MIN_FUNCTIONS}) under {root}')

    # ------------------------------------------------------------------ loading
    @classmethod
    def from_sources(cls, sources, pkg='mini'):
        """in-memory model (embedded positive examples for zero-instance rules): {relative path: source}"""
        return cls('<memory>', pkg=pkg, enforce_floors=False, sources=sources)

    def _files(self):
        if self._sources is not None:
            for rel in sorted(self._sources):
                yield rel, self._sources[rel]
            return
        top = os.path.join(self.root, self.pkg)
        if not os.path.isdir(top):
            raise AnalysisError(f'package directory {top} not found')
        for d, dirs, fs in os.walk(top):
            dirs[:] = sorted(x for x in dirs if x not in ('tests', '__pycache__'))
            for f in sorted(fs):
                if f.endswith('.py'):
                    p = os.path.join(d, f)
                    yield os.path.relpath(p, self.root), open(p, encoding='utf-8').read()

    def _load(self):
        for rel, src in self._files():
            mod = rel[:-3].replace(os.sep, '.').replace('/', '.')
            pkgflag = mod.endswith('.__init__') or mod == '__init__'
            if mod.endswith('.__init__'):
                mod = mod[:-9]
            try:
                tree = ast.parse(src, filename=rel)
            except SyntaxError as e:
                raise AnalysisError(f'{rel} does not parse: {e}')
            for n_ in ast.walk(tree):
                if isinstance(n_, ast.FunctionDef):
                    _simple_generator_to_genexp(n_)
            self.mods[mod], self.paths[mod], self.src[mod] = tree, rel, src
            self.is_pkg[mod] = pkgflag
        for mod, tree in self.mods.items():
            imp = {}
            self._scan_imports(mod, tree.body, imp)
            for n in ast.walk(tree):
                if isinstance(n, (ast.FunctionDef, ast.AsyncFunctionDef)):
                    self._scan_imports(mod, n.body, imp, deep=True)
            self.imports[mod] = imp
            assigns = {}
            for n in tree.body:
                if isinstance(n, ast.FunctionDef):
                    self.funcs[f'{mod}.{n.name}'] = Func(mod, f'{mod}.{n.name}', n, path=self.paths[mod])
                elif isinstance(n, ast.ClassDef):
                    self.classes[f'{mod}.{n.name}'] = n
                    for k in n.body:
                        if isinstance(k, ast.FunctionDef):
                            q = f'{mod}.{n.name}.{k.name}'
                            self.funcs[q] = Func(mod, q, k, cls=f'{mod}.{n.name}', path=self.paths[mod])
                elif isinstance(n, ast.Assign):
                    for t in n.targets:
                        if isinstance(t, ast.Name):
                            assigns[t.id] = n.value
            self.modassign[mod] = assigns

    def _scan_imports(self, mod, body, imp, deep=False):
        for n in body:
            if isinstance(n, ast.ImportFrom):
                base = n.module or ''
                if n.level:
                    parts = mod.split('.')
                    is_pkg = self.is_pkg.get(mod, False)
                    up = parts if is_pkg else parts[:-1]
                    up = up[:len(up) - (n.level - 1)]
                    base = '.'.join(up + ([n.module] if n.module else []))
                for a in n.names:
                    imp[a.asname or a.name] = (base, a.name)
            elif isinstance(n, ast.Import):
                for a in n.names:
                    if a.asname:
                        imp[a.asname] = (a.name, None)
                    else:
                        imp[a.name.split('.')[0]] = (a.name.split('.')[0], None)
            elif deep and isinstance(n, (ast.If, ast.For, ast.While, ast.With, ast.Try)):
                for fld in ('body', 'orelse', 'finalbody'):
                    self._scan_imports(mod, getattr(n, fld, []) or [], imp, deep)
                for h in getattr(n, 'handlers', []) or []:
                    self._scan_imports(mod, h.body, imp, deep)

    # ------------------------------------------------------------------ resolution
    def resolve(self, mod, name, depth=0):
        """Name used in module ``mod`` -> qualified function / class name (str) if defined in the
        package, ``('ext', dotted)`` if imported from outside, else ``None``."""
        if depth > 8:
            return None
        q = f'{mod}.{name}'
        if q in self.funcs or q in self.classes:
            return q
        imp = self.imports.get(mod, {})
        if name in imp:
            base, attr = imp[name]
            if attr is None:
                return ('ext', base)
            if base in self.mods:
                r = self.resolve(base, attr, depth + 1)
                if r is not None:
                    return r
                if f'{base}.{attr}' in self.mods:
                    return ('mod', f'{base}.{attr}')
                return None
            return ('ext', f'{base}.{attr}')
        return None

    def func(self, qual):
        if qual not in self.funcs:
            raise AnalysisError(f'anchor function {qual} not found in {self.root}')
        return self.funcs[qual]

    def find(self, name):
        """Public lookup by bare name, e.g. 'compute_features' (unique or AnalysisError)."""
        c = [q for q in self.funcs if q.endswith('.' + name)]
        if len(c) > 1:          # prefer module-level functions over methods of the same name
            c = [q for q in c if self.funcs[q].cls is None] or c
        if len(c) != 1:
            raise AnalysisError(f'anchor {name}: expected exactly one definition, found {c}')
        return self.funcs[c[0]]

    def methods(self, cls):
        return {q.rsplit('.', 1)[1]: f for q, f in self.funcs.items() if f.cls == cls}

    def bases(self, cls):
        node = self.classes[cls]
        mod = cls.rsplit('.', 1)[0]
        out = []
        for b in node.bases:
            if isinstance(b, ast.Name):
                r = self.resolve(mod, b.id)
                if isinstance(r, str):
                    out.append(r)
        return out

    def lookup_method(self, cls, name):
        seen = []
        work = [cls]
        while work:
            c = work.pop(0)
            if c in seen:
                continue
            seen.append(c)
            q = f'{c}.{name}'
            if q in self.funcs:
                return self.funcs[q]
            work.extend(self.bases(c))
        return None

    def digest(self):
        h = hashlib.sha256()
        for m in sorted(self.src):
            h.update(m.encode())
            h.update(self.src[m].encode())
        return h.hexdigest()[:16]

    def inventory(self):
        calls = sum(isinstance(n, ast.Call) for t in self.mods.values() for n in ast.walk(t))
        return {'modules': len(self.mods), 'functions': len(self.funcs), 'call_sites': calls,
                'source_digest': self.digest()}


def installed_versions():
    """Versions of the dependencies whose semantics the model tables encode, read from the
    installed metadata (never imported)."""
    import glob
    out = {}
    for sp in glob.glob('/venv/lib/python3*/site-packages'):
        for d in glob.glob(os.path.join(sp, '*.dist-info')):
            base = os.path.basename(d)[:-10]
            if '-' in base:
                name, ver = base.rsplit('-', 1)
                if name.lower() in ('pandas', 'numpy', 'neurodsp', 'scipy', 'matplotlib'):
                    out[name.lower()] = ver
    return out


def external_source(dotted):
    """Locate the source file of an external module (for signature checks of neurodsp callees)."""
    import glob
    parts = dotted.split('.')
    for sp in glob.glob('/venv/lib/python3*/site-packages'):
        for k in range(len(parts), 0, -1):
            p = os.path.join(sp, *parts[:k])
            if os.path.isfile(p + '.py'):
                return p + '.py', parts[k:]
            if os.path.isfile(os.path.join(p, '__init__.py')):
                return os.path.join(p, '__init__.py'), parts[k:]
    return None, parts


_EXT_CACHE = {}


def external_function(dotted, depth=0):
    """Resolve e.g. 'neurodsp.filt.filter_signal' to its ``ast.FunctionDef`` by following re-exports in
    the installed sources.  Returns (FunctionDef, path) or (None, None)."""
    if dotted in _EXT_CACHE:
        return _EXT_CACHE[dotted]
    res = (None, None)
    if depth < 6:
        path, rest = external_source(dotted)
        if path and len(rest) == 1:
            try:
                tree = ast.parse(open(path, encoding='utf-8').read())
            except Exception:
                tree = None
            if tree is not None:
                name = rest[0]
                for n in tree.body:
                    if isinstance(n, ast.FunctionDef) and n.name == name:
                        res = (n, path)
                        break
                else:
                    for n in tree.body:
                        if isinstance(n, ast.ImportFrom):
                            for a in n.names:
                                if (a.asname or a.name) == name:
                                    modname = dotted.rsplit('.', 1)[0]
                                    if n.level:
                                        parts = modname.split('.')
                                        is_pkg = path.endswith('__init__.py')
                                        up = parts if is_pkg else parts[:-1]
                                        up = up[:len(up) - (n.level - 1)]
                                        base = '.'.join(up + ([n.module] if n.module else []))
                                    else:
                                        base = n.module
                                    res = external_function(f'{base}.{a.name}', depth + 1)
                                    break
                            if res[0] is not None:
                                break
    _EXT_CACHE[dotted] = res
    return res
