"""L5: unit inference over normal-form terms (property C10).

Units are exponent vectors over (V = signal amplitude, samp = samples, s = seconds).  ``POLY`` is the unit of the
literal 0 / nan / an all-zero initialiser: it unifies with anything.  Integer literals take the unit of their
partner when that is a count of samples; a non-zero literal added to / compared with a V-valued term is an
*absolute level* and is reported.  External callees have unit signatures (table EXT below).
"""
from fractions import Fraction
from . import terms as T

POLY = 'poly'
ONE = (0, 0, 0)
V = (1, 0, 0)
SAMP = (0, 1, 0)
SEC = (0, 0, 1)
HZ = (0, 0, -1)
FS = (0, 1, -1)
ANY = 'any'          # strings, None, option dictionaries ... : not a physical quantity

PARAM_UNITS = {
    'sig': V, 'sigs': V, 'x': V, 'fs': FS, 'f_range': HZ, 'n_cycles': ONE, 'n_seconds': SEC, 'boundary': SAMP, 'min_n_cycles': ONE,
    'amp_threshes': ONE, 'min_burst_duration': SEC, 'start': SEC, 'stop': SEC, 'level': V, 'midpoint': V,
    'amp_fraction_threshold': ONE, 'amp_consistency_threshold': ONE, 'period_consistency_threshold': ONE, 'monotonicity_threshold': ONE,
    'burst_fraction_threshold': ONE, 'fk_n_cycles': ONE, 'fk_n_seconds': SEC, 'pass_type': ANY, 'bias': ONE, 'n_flanks': ONE, 'm': ONE,
    'start_idx': SAMP, 'end_idx': SAMP,
}
ATOM_UNITS = {'P': SAMP, 'TR': SAMP, 'R': SAMP, 'D': SAMP, 'RX': SAMP, 'DX': SAMP, 'n_ext': ONE, 'pi': ONE, 'cpu_count': ONE}


def col_unit(name):
    if name.startswith('sample_'):
        return SAMP
    if name.startswith('volt_') or name == 'band_amp':
        return V
    if name in ('time_rdsym', 'time_ptsym', 'amp_fraction', 'amp_consistency', 'period_consistency', 'monotonicity', 'burst_fraction', 'is_burst'):
        return ONE
    if name == 'period' or name.startswith('time_'):
        return SAMP
    return None


def mulu(a, b, sign=1):
    if a in (POLY, ANY) or b in (POLY, ANY):
        return a if b in (POLY, ANY) and a not in (POLY, ANY) else b if a in (POLY, ANY) and sign == 1 else \
            (tuple(-x for x in b) if isinstance(b, tuple) else b) if a in (POLY, ANY) else a
    return tuple(x + sign * y for x, y in zip(a, b))


def name(u):
    if u in (POLY, ANY) or u is None:
        return str(u)
    parts = []
    for sym, e in zip(('V', 'samp', 's'), u):
        if e:
            parts.append(sym if e == 1 else f'{sym}^{e}')
    return '*'.join(parts) or '1'


# external unit signatures: name -> (result, {arg position or keyword: required unit}); result 'arg0' = unit of the first argument
# a requirement is keyed by the parameter's position in the installed neurodsp signature and / or its keyword (calls are held in positional
# normal form: keywords naming the next free slot have been moved there, so both spellings must be looked up)
EXT = {
    'filter_signal': ('arg0', {(1, 'fs'): FS, (3, 'f_range'): HZ, (4, 'n_cycles'): ONE, (5, 'n_seconds'): SEC}),
    'amp_by_time': ('arg0', {(1, 'fs'): FS, (2, 'f_range'): HZ, (None, 'n_cycles'): ONE, (None, 'n_seconds'): SEC}),
    'detect_bursts_dual_threshold': (ONE, {(1, 'fs'): FS, (2, 'dual_thresh'): ONE, (3, 'f_range'): HZ, (4, 'min_n_cycles'): ONE, (5, 'min_burst_duration'): SEC,
                                           (None, 'n_cycles'): ONE, (None, 'n_seconds'): SEC}),
    'compute_filter_length': (SAMP, {(0, 'fs'): FS, (2, 'f_lo'): HZ, (3, 'f_hi'): HZ, (4, 'n_cycles'): ONE, (5, 'n_seconds'): SEC}),
}
SAME_AS_ARG0 = {'mean', 'median', 'sum', 'diff', 'abs', 'append', 'unique', 'pad', 'ceil', 'floor', 'int', 'min', 'max', 'nanmin', 'nanmax', 'pymin', 'pymax',
                'nanmean', 'cumsum', 'sort', 'flatten', 'reshape', 'swapaxes', 'transpose', 'astype', 'minimum', 'maximum', 'round', 'concatenate', 'clip'}
ABSOLUTE_TOLERANCE = {'allclose', 'isclose'}       # carry an absolute tolerance (atol=1e-8) in the units of their arguments


class Inference:
    def __init__(self):
        self.problems = []
        self.memo = {}

    def problem(self, kind, t, detail):
        p = (kind, T.brief(t, 140), detail)
        if p not in self.problems:
            self.problems.append(p)

    def unify(self, units, t, what):
        units = [self.flat(u_) for u_ in units]
        counts = [u_ for u_ in units if u_ == COUNT]
        lits = [u_ for u_ in units if u_ == LIT]
        real = [u_ for u_ in units if u_ not in (POLY, ANY, None, LIT, COUNT)]
        if counts and not real:
            return COUNT
        if counts and real and real[0] not in (ONE, SAMP):
            self.problem('UNIT-MISMATCH', t, f'{what}: a count meets a {name(real[0])}-valued term')
        if not real:
            return ONE if lits else (POLY if units and all(u_ == POLY for u_ in units) else (units[0] if units else POLY))
        if any(u_ != real[0] for u_ in real):
            self.problem('UNIT-MISMATCH', t, f'{what}: ' + ' vs '.join(sorted({name(u_) for u_ in real})))
        if lits and real[0] == V:
            self.problem('ABSOLUTE-LEVEL', t, f'{what}: a non-zero literal meets a V-valued term')
        elif lits and real[0] not in (ONE, SAMP):
            self.problem('UNIT-MISMATCH', t, f'{what}: a bare literal meets a {name(real[0])}-valued term')
        return real[0]

    def u(self, t):
        if t in self.memo:
            return self.memo[t]
        r = self._u(t)
        self.memo[t] = r
        return r

    def _u(self, t):
        tag = t[0]
        if tag == 'const':
            v = t[1]
            if v in ('nan', 'inf', '-inf') or (T.isnum(t) and v == 0):
                return POLY
            if T.isnum(t):
                return LIT
            return ANY
        if tag == 'param':
            return PARAM_UNITS.get(t[1], None if t[1] not in PARAM_UNITS else ANY) if t[1] in PARAM_UNITS else None
        if tag == 'atom':
            return ATOM_UNITS.get(t[1], {'int': ONE, 'intarr': SAMP}.get(t[2]))
        if tag == 'col':
            return col_unit(t[2])
        if tag == 'len':
            return SAMP if self.flat(self.u(t[1])) == V else COUNT     # number of samples of a signal vs number of rows / items
        if tag in ('nrows', 'lv'):
            return COUNT
        if tag == 'nd':
            return self.u(t[1])
        if tag == 'lin':
            units = [self.u(x) for x, c in t[2]]
            if t[1] != 0:
                units.append(LIT)
            return self.unify(units, t, 'sum')
        if tag == 'mul':
            out = POLY
            for x in t[1]:
                out = mulu(out, self.delit(self.u(x)) or ANY)
            return out
        if tag in ('div', 'floordiv'):
            a, b = self.delit(self.u(t[1])), self.delit(self.u(t[2]))
            if a is None or b is None:
                return None
            return mulu(a if a not in (POLY, ANY) else ONE, b if b not in (POLY, ANY) else ONE, -1)
        if tag == 'mod':
            return self.delit(self.u(t[1]))
        if tag == 'idx':
            self.u(t[2])
            base = t[1]
            if base[0] in ('tuple', 'list') and base[1]:
                return self.unify([self.u(x) for x in base[1]], t, 'elements of a sequence')
            return self.delit(self.u(base))
        if tag == 'slice':
            for b in t[2:]:
                if b != T.NONE:
                    self.u(b)
            return self.delit(self.u(t[1]))
        if tag == 'cmp0':
            self.u(t[2])
            return ONE
        if tag == 'cmp':
            a, b = self.u(t[2]), self.u(t[3])
            if t[1] in ('Eq', 'NotEq', 'Gt', 'GtE'):
                self.unify([a, b], t, 'comparison')
            return ONE
        if tag in ('and', 'or', 'not', 'band', 'bor', 'binv', 'isinstance', 'strtest'):
            for x in (t[1] if tag in ('and', 'or', 'band', 'bor') else [t[1]] if tag in ('not', 'binv') else []):
                self.u(x)
            return ONE
        if tag == 'gamma':
            self.u(t[1])
            return self.unify([self.u(t[2]), self.u(t[3])], t, 'alternatives')
        if tag in ('tuple', 'list'):
            us = [self.u(x) for x in t[1]]
            return ('seq', tuple(us))
        if tag == 'table':
            for c, v in t[1]:
                self.u(v)
            return ANY
        if tag == 'arr':
            units = [self.u(t[1])]
            for k, v, g in t[2]:
                if isinstance(k, tuple) and k and k[0] not in ('sl', 'path', 'cell'):
                    self.u(k)
                elif isinstance(k, tuple):
                    for b in k[1:]:
                        if isinstance(b, tuple) and b and isinstance(b[0], str) and b != T.NONE:
                            self.u(b)
                self.u(g)
                units.append(self.u(v))
            u_ = self.unify(units, t, 'array elements')
            return u_
        if tag in ('map', 'filtermap'):
            if tag == 'filtermap':
                self.u(t[2])
            return self.delit(self.u(t[-1]))
        if tag == 'first':
            self.u(t[2])
            return self.delit(self.u(t[3]))
        if tag == 'loopout':
            return self.unify([self.u(t[2]), self.u(t[3])], t, 'loop-carried value')
        if tag == 'carried':
            return self.delit(self.u(t[4])) if len(t) > 4 else None
        if tag == 'call':
            return self.call(t)
        if tag in ('records', 'row'):
            return ANY
        return None

    def delit(self, u):
        """in products / quotients a bare literal is dimensionless"""
        u = self.flat(u)
        return ONE if u in (LIT, COUNT) else u

    def call(self, t):
        nm, args, kw = t[1], t[2], dict(t[3])
        au = [self.u(a) for a in args]
        ku = {k: self.u(v) for k, v in kw.items()}
        if nm in EXT:
            res, req = EXT[nm]
            for (pos, key), want in req.items():
                if pos is not None and pos < len(au):
                    got, val = au[pos], args[pos]
                elif key in ku:
                    got, val = ku[key], kw[key]
                else:
                    continue
                got = self.flat(got)
                if got in (LIT, COUNT) and want == ONE:
                    continue
                if got not in (None, POLY, ANY) and got != want and val != T.NONE:
                    self.problem('UNIT-MISMATCH', t, f'argument {key!r} of {nm} has unit {name(got)}, expected {name(want)}')
            return self.flat(au[0]) if res == 'arg0' and au else res
        if nm.rsplit('.', 1)[-1] in ('floor', 'ceil', 'trunc', 'rint', 'fix', 'int') and au and self.flat(au[0]) == V:
            self.problem('ABSOLUTE-LEVEL', t, f'{nm} quantises a V-valued term to whole units: an absolute resolution in signal units')
        if nm.rsplit('.', 1)[-1] in ('floor', 'ceil', 'trunc', 'rint', 'fix', 'int', 'round', 'around') and au and self.flat(au[0]) in (SEC, HZ, FS):
            # whole seconds / whole Hz exist only in one unit of time: the same recording described with fs and f_range multiplied by c has other whole values
            self.problem('ABSOLUTE-LEVEL', t, f'{nm} quantises a {name(self.flat(au[0]))}-valued term to whole units: the result depends on the unit in which time / frequency is expressed')
        if nm.rsplit('.', 1)[-1] in ('round', 'around', 'round_'):
            # rounding to a fixed number of decimals is an absolute resolution in the units of the operand
            if au and self.flat(au[0]) == V:
                self.problem('ABSOLUTE-LEVEL', t, f'{nm} rounds a V-valued term to a fixed number of decimals: an absolute resolution in signal units')
            return self.flat(au[0]) if au else None
        if nm in ABSOLUTE_TOLERANCE:
            if any(self.flat(u_) == V for u_ in au):
                self.problem('ABSOLUTE-LEVEL', t, f'{nm} carries an absolute tolerance in signal units')
            return ONE
        if nm in ('argmax', 'argmin', 'flatnonzero', 'nonzero0', 'arange', 'searchsorted', 'argsort'):
            if nm == 'arange':
                return self.unify([self.flat(u_) for u_ in au], t, 'arange bounds')
            # a position counts along the axis of the searched array: samples for a time series, an ordinal (cycle / rank) for a per-cycle column or a
            # sorted copy (sorting forgets the time axis, except for a time axis itself, which is sorted already)
            if nm == 'searchsorted':
                return SAMP if au and self.flat(au[0]) == SEC else COUNT
            if args and any(x[0] in ('col', 'nrows') or x[0] == 'call' and x[1] == 'sort' for x in T.walk(args[0])):
                return COUNT
            return SAMP
        if nm in ('rank',):
            return ONE
        if nm in ('isnan', 'any', 'all', 'isfinite', 'count'):
            return ONE
        if nm in ('zeros', 'ones', 'zeros_like'):
            return POLY if nm.startswith('zeros') else ONE
        if nm in SAME_AS_ARG0 and au:
            return self.flat(au[0])
        if nm in ('zscore',):
            return ONE
        if nm == 'interp':
            return self.flat(au[2]) if len(au) > 2 else None
        return None

    def flat(self, u):
        if isinstance(u, tuple) and u and u[0] == 'seq':
            return self.unify(list(u[1]), ('const', 'sequence'), 'elements of a sequence') if u[1] else POLY
        return u


LIT = 'lit'
COUNT = 'count'


def unit_of(t):
    inf = Inference()
    u = inf.flat(inf.u(t))
    if u in (LIT, COUNT):
        u = ONE
    return u, inf.problems
