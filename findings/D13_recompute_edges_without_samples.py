"""C16 violation: recompute_edges on a peak-centred table computed with return_samples=False.

compute_features(..., center_extrema='peak', return_samples=False) is a cycle table produced by
consistency burst detection.  recompute_edges() must replace the amplitude consistency of the
cycles just outside each burst by the one-sided value looking into the burst.  Without the
sample_* columns compute_amp_consistency() mistakes the table for a trough-centred one and
pairs the wrong flanks, so the edge cycles get a value that is neither the one-sided value nor
the old one (it can even be lower than the two-sided value), and the result differs from the
result obtained for the very same cycles when the sample columns are present.
"""
import os, sys; sys.path.insert(0, os.environ.get('BYCYCLE_ROOT', '/repo'))
import warnings; warnings.filterwarnings('ignore')
import numpy as np

from bycycle.features import compute_features
from bycycle.burst.utils import recompute_edges
from bycycle import Bycycle

# ---------------------------------------------------------------- deterministic bursty signal
rng = np.random.default_rng(2)
fs, f_range = 500., (8., 12.)
n = 10 * int(fs)
t = np.arange(n) / fs
env = (np.sin(2 * np.pi * .35 * t) > -.2).astype(float)
env = np.convolve(env, np.ones(50) / 50, mode='same')
sig = env * np.sin(2 * np.pi * 10 * t) + .35 * np.cumsum(rng.standard_normal(n)) / 10 \
    + .15 * rng.standard_normal(n)

th = {'amp_fraction_threshold': 0., 'amp_consistency_threshold': .5,
      'period_consistency_threshold': .5, 'monotonicity_threshold': .6, 'min_n_cycles': 3}

df_s = compute_features(sig, fs, f_range, center_extrema='peak', threshold_kwargs=dict(th),
                        return_samples=True)
df_n = compute_features(sig, fs, f_range, center_extrema='peak', threshold_kwargs=dict(th),
                        return_samples=False)
shared = list(df_n.columns)
assert not any(c.startswith('sample_') for c in shared)
assert df_n.equals(df_s[shared]), 'setup: the two tables describe different cycles'
assert df_n['is_burst'].sum() > 0, 'setup: no bursts'

# ------------------------------------------------- independent one-sided amplitude consistency
# peak-centred cycle = trough -> peak -> trough: its rise touches the decay of the previous cycle,
# its decay touches the rise of the next cycle.
rise = df_n['volt_rise'].to_numpy(); decay = df_n['volt_decay'].to_numpy()

def ratio(a, b):
    return max(min(a, b) / max(a, b), 0.)

def one_sided(i, direction):
    cur = ratio(rise[i], decay[i])
    if direction == 'next':
        return min(cur, ratio(decay[i], rise[i + 1]))
    return min(cur, ratio(rise[i], decay[i - 1]))

# the reference is validated against the library's own two-sided feature of the original table
orig = df_n['amp_consistency'].to_numpy()
for i in range(1, len(df_n) - 1):
    assert np.isclose(min(one_sided(i, 'next'), one_sided(i, 'last')), orig[i], rtol=1e-12, atol=0), \
        'reference does not reproduce the original feature'

# ------------------------------------------------------------------------------ the check
new_n = recompute_edges(df_n, dict(th))
new_s = recompute_edges(df_s, dict(th))

burst = df_n['is_burst'].to_numpy()
expected = orig.copy()
edges = []
i = 0
while i < len(burst):
    if burst[i]:
        j = i
        while j + 1 < len(burst) and burst[j + 1]:
            j += 1
        for row, direction in ((i - 1, 'next'), (j + 1, 'last')):
            if 0 < row < len(burst) - 1:
                expected[row] = one_sided(row, direction); edges.append(row)
        i = j + 1
    else:
        i += 1

got_s = new_s['amp_consistency'].to_numpy()
got_n = new_n['amp_consistency'].to_numpy()

# with sample columns the library agrees with the definition ...
assert np.allclose(got_s, expected, rtol=1e-12, atol=0, equal_nan=True), \
    'with sample columns: edge consistency is not the one-sided value'

# ... and the same cycles without sample columns must give the same answer
wrong = [r for r in edges if not np.isclose(got_n[r], expected[r], rtol=1e-12, atol=0)]
lower = [r for r in wrong if got_n[r] < orig[r] - 1e-12]
msg = ('C16 violated for a peak-centred table computed with return_samples=False: '
       '%d of %d burst-edge cycles did not receive the one-sided amplitude consistency '
       '(e.g. row %d: got %.6f, one-sided value %.6f, two-sided value before %.6f); '
       '%d of them dropped BELOW their two-sided value; is_burst differs from the '
       'return_samples=True result in %d rows'
       % (len(wrong), len(edges), wrong[0] if wrong else -1,
          got_n[wrong[0]] if wrong else np.nan, expected[wrong[0]] if wrong else np.nan,
          orig[wrong[0]] if wrong else np.nan, len(lower),
          int((new_n['is_burst'].to_numpy() != new_s['is_burst'].to_numpy()).sum())))
assert not wrong, msg
assert new_n.equals(new_s[shared]), 'recompute_edges result depends on return_samples'

# same thing through the object interface
bm = Bycycle(center_extrema='peak', thresholds=dict(th), return_samples=False)
bm.fit(sig, fs, f_range); bm.recompute_edges()
assert np.allclose(bm.df_features['amp_consistency'].to_numpy(), expected, equal_nan=True)
print('OK')
