"""Demonstrations of the genuine defects D1-D9 (see DESIGN.md section 1) against the real code.

NOT a check and not part of any verdict: the static checks never import bycycle.  This file only
documents, with a concrete failing input each, that the constructs the static rules point at are
real defects.  Usage: /venv/bin/python findings/repro.py [D1 D2 ...]   (exit 0 = all demonstrated
defects are ABSENT, i.e. repaired; prints PRESENT/absent per defect).
"""
import sys, warnings, copy
import numpy as np
warnings.simplefilter('ignore')

def sig_fs(seed=0, n=3000, fs=500., f=10.):
    rng = np.random.default_rng(seed)
    t = np.arange(n) / fs
    return np.sin(2*np.pi*f*t) + 0.3*np.sin(2*np.pi*2.3*f*t + 1.) + 0.2*rng.standard_normal(n), fs

def D1():
    from bycycle.features import compute_features
    sig, fs = sig_fs()
    try:
        compute_features(sig, fs, (8, 12), threshold_kwargs={'min_n_cycles': 3})
    except ValueError as e:
        return 'read-only' in str(e), str(e)
    return False, 'ok'

def D2():
    from bycycle.cyclepoints import find_extrema
    sig, fs = sig_fs()
    try:
        find_extrema(sig, fs, (8, 12), filter_kwargs={'n_seconds': .5})
    except ValueError as e:
        return True, str(e)
    return False, 'ok'

def D3():
    from bycycle.features import compute_features
    sig, fs = sig_fs()
    bk, tk = {}, {'burst_fraction_threshold': 1, 'min_n_cycles': 2}
    bk0, tk0 = copy.deepcopy(bk), copy.deepcopy(tk)
    compute_features(sig, fs, (8, 12), burst_method='amp', burst_kwargs=bk, threshold_kwargs=tk)
    return (bk != bk0 or tk != tk0), f'burst_kwargs after call: {bk}'

def D4():
    from bycycle.group import compute_features_3d
    from bycycle.features import compute_features
    sigs = np.array([[sig_fs(10*i+j)[0] for j in range(3)] for i in range(2)])
    tk = {'burst_fraction_threshold': 1, 'min_n_cycles': 2}
    kw = {'burst_method': 'amp', 'threshold_kwargs': tk}
    out = compute_features_3d(sigs, 500., (8, 12), compute_features_kwargs=kw, axis=(0, 1), n_jobs=1)
    ref = compute_features(sigs[1, 0], 500., (8, 12), burst_method='amp', threshold_kwargs=dict(tk))
    same = out[1][0].equals(ref)
    return (not same), 'entry [1][0] != analysis of sigs[1,0]'

def D5():
    import pandas as pd
    from bycycle.burst.utils import recompute_edge
    n = 6
    df = pd.DataFrame({'volt_rise': [1., 2, 3, 4, 5, 6], 'volt_decay': [6., 5, 4, 3, 2, 1],
                       'period': [10., 20, 30, 40, 50, 60], 'sample_peak': range(n),
                       'amp_consistency': [np.nan, .1, .1, .1, .1, np.nan],
                       'period_consistency': [np.nan, .1, .1, .1, .1, np.nan]})
    out = recompute_edge(df.copy(), 2, 'next')
    return bool(out['amp_consistency'][2] == .1 and out['period_consistency'][2] == .1), \
        f"after recompute_edge: amp_consistency[2]={out['amp_consistency'][2]}"

def _table(centre):
    import pandas as pd
    side = 'trough' if centre == 'peak' else 'peak'
    rise, decay = ('rise', 'decay') if centre == 'peak' else ('decay', 'rise')
    return pd.DataFrame({f'sample_last_{side}': [0, 100, 200], f'sample_next_{side}': [100, 200, 300],
                         f'sample_{centre}': [50, 150, 250], f'sample_zerox_{rise}': [25, 125, 225],
                         f'sample_zerox_{decay}': [75, 175, 275], f'sample_last_zerox_{decay}': [0, 75, 175],
                         'period': [100, 100, 100]})

def D6():
    from bycycle.utils import limit_df, limit_signal
    msgs = []
    try: limit_df(_table('peak'), 100., stop=2.5)
    except TypeError as e: msgs.append('limit_df(start omitted): TypeError')
    try: limit_df(_table('peak'), 100., start=.5)
    except TypeError as e: msgs.append('limit_df(stop omitted): TypeError')
    try: limit_signal(np.arange(10)/10, np.arange(10.), start=.2)
    except TypeError as e: msgs.append('limit_signal(stop omitted): TypeError')
    try: limit_df(_table('trough'), 100., start=.5, stop=2.5)
    except KeyError as e: msgs.append(f'limit_df(trough table): KeyError {e}')
    return bool(msgs), '; '.join(msgs)

def D7():
    from bycycle.group.utils import check_kwargs_shape
    sigs = np.zeros((2, 3, 50))
    kw = np.array([[{}, {}, {}], [{}, {}, {}]])      # 2-D list, but axis=0 wants a 1-D list of 2
    try: check_kwargs_shape(sigs, kw, 0)
    except ValueError: return False, 'rejected'
    return True, '2-D option list accepted for axis=0'

def D8():
    from bycycle.cyclepoints import extrema_interpolated_phase
    sig = np.zeros(21)
    pha = extrema_interpolated_phase(sig, np.array([4, 12, 20]), np.array([8, 16]))
    return bool(np.isnan(pha).all()), f'finite samples: {int(np.isfinite(pha).sum())} of {len(pha)}'

def D9():
    import pandas as pd
    import bycycle.group.features as gf
    calls = []
    orig = gf.detect_bursts_amp
    def spy(df, **kw):
        calls.append(len(df)); return orig(df, **kw)
    gf.detect_bursts_amp = spy
    try:
        sigs = np.array([sig_fs(i, n=1500)[0] for i in range(3)])
        kw = {'burst_method': 'amp', 'threshold_kwargs': {'burst_fraction_threshold': 1, 'min_n_cycles': 2}}
        gf.compute_features_2d(sigs, 500., (8, 12), compute_features_kwargs=kw, axis=None)
    finally:
        gf.detect_bursts_amp = orig
    return bool(calls), f'per-epoch re-labelling calls with a single shared option set: {len(calls)}'

def D11():
    from bycycle import BycycleGroup
    sigs = np.array([sig_fs(i, n=3000)[0] for i in range(3)])
    bg = BycycleGroup(thresholds={'amp_fraction_threshold': 0.2, 'amp_consistency_threshold': .5, 'period_consistency_threshold': .5,
                                  'monotonicity_threshold': .8, 'min_n_cycles': 3})
    bg.fit(sigs, 500., (8, 12), n_jobs=1)
    bg.recompute_edges(0.1)
    stale = [i for i in range(3) if not bg.df_features[i].equals(bg.models[i].df_features)]
    return bool(stale), f'positions where bg.df_features[i] is not bg.models[i].df_features after recompute_edges(0.1): {stale}'


ALL = dict(D1=D1, D2=D2, D3=D3, D4=D4, D5=D5, D6=D6, D7=D7, D8=D8, D9=D9, D11=D11)
if __name__ == '__main__':
    names = sys.argv[1:] or list(ALL)
    bad = 0
    for n in names:
        try:
            present, msg = ALL[n]()
        except Exception as e:   # another defect in the way (e.g. D1 masks D4/D9 on 'cycles')
            present, msg = None, f'{type(e).__name__}: {e}'
        print(f"{n}: {'PRESENT' if present else 'absent' if present is False else 'BLOCKED'} - {msg}")
        bad += bool(present) or present is None
    sys.exit(1 if bad else 0)
