"""C13 violation: compute_features_2d(axis=None) with a per-epoch option list whose entries
are the SAME dict object (e.g. ``[kw] * n_epochs``) re-labels only epoch 0 with the given
thresholds; every later epoch is re-labelled with the library defaults (and, for
burst_method='amp', the call raises KeyError('amp_fraction')).

Property C13: "... with a per-epoch list each epoch is re-labelled with its own thresholds."

Cause: bycycle/group/features.py:96 deep-copies the list (deepcopy keeps the aliasing between
list entries), and lines 145-147 ``pop`` 'burst_method' / 'threshold_kwargs' out of the entry
while processing epoch 0 - so for the aliased entries of the later epochs the keys are gone
and ``pop`` returns the defaults ('cycles', {}).
"""
import os, sys; sys.path.insert(0, os.environ.get('BYCYCLE_ROOT', '/repo'))
import warnings; warnings.filterwarnings('ignore')
import copy
import numpy as np
import pandas as pd
from neurodsp.sim import sim_bursty_oscillation, sim_powerlaw

from bycycle.features import compute_features
from bycycle.burst import detect_bursts_cycles, detect_bursts_amp
from bycycle.group import compute_features_2d

fs, f_range = 500, (8, 12)
np.random.seed(0)
sigs = np.array([sim_bursty_oscillation(4, fs, 10) + .3 * sim_powerlaw(4, fs, -2)
                 for _ in range(3)])
n_epochs, epoch_len = sigs.shape


def expected(kw):
    """Property's own definition: flattened analysis, split by closing side extremum,
    every epoch re-labelled with the thresholds given for it."""
    kw = copy.deepcopy(kw)
    th = kw.get('threshold_kwargs', {})
    method = kw.get('burst_method', 'cycles')
    df = compute_features(sigs.flatten(), fs, f_range, return_samples=True, **kw)
    closing = df['sample_next_trough'].values
    out = []
    for k in range(n_epochs):
        lo, hi = k * epoch_len, (k + 1) * epoch_len
        d = df[(closing > lo) & (closing <= hi)].reset_index(drop=True)
        for col in d.columns:
            if col.startswith('sample_'):
                d[col] = d[col] - lo
        relabel = detect_bursts_cycles if method == 'cycles' else detect_bursts_amp
        out.append(relabel(d, **th))
    return out


errors = []

# --- consistency method -------------------------------------------------------------------
kw = {'threshold_kwargs': {'amp_fraction_threshold': .3, 'amp_consistency_threshold': .2,
                           'period_consistency_threshold': .2, 'monotonicity_threshold': .3,
                           'min_n_cycles': 1}}
kw_before = copy.deepcopy(kw)
ref = expected(kw)
got = compute_features_2d(sigs, fs, f_range, [kw] * n_epochs, axis=None, n_jobs=1)
assert kw == kw_before
for k in range(n_epochs):
    try:
        pd.testing.assert_frame_equal(got[k], ref[k], check_exact=True)
    except AssertionError:
        errors.append("cycles: epoch %d labelled with other thresholds than its own: "
                      "n_burst=%d, expected %d (defaults would give %d)"
                      % (k, got[k]['is_burst'].sum(), ref[k]['is_burst'].sum(),
                         detect_bursts_cycles(ref[k].copy())['is_burst'].sum()))

# sanity: an equal list made of distinct dict objects behaves as the property says
got2 = compute_features_2d(sigs, fs, f_range, [copy.deepcopy(kw) for _ in range(n_epochs)],
                           axis=None, n_jobs=1)
for k in range(n_epochs):
    pd.testing.assert_frame_equal(got2[k], ref[k], check_exact=True)

# --- amplitude method ---------------------------------------------------------------------
kw = {'burst_method': 'amp', 'threshold_kwargs': {'burst_fraction_threshold': .5,
                                                  'min_n_cycles': 1}}
ref = expected(kw)
try:
    got = compute_features_2d(sigs, fs, f_range, [kw] * n_epochs, axis=None, n_jobs=1)
    for k in range(n_epochs):
        try:
            pd.testing.assert_frame_equal(got[k], ref[k], check_exact=True)
        except AssertionError:
            errors.append("amp: epoch %d not labelled with its own thresholds" % k)
except Exception as exc:  # noqa
    errors.append("amp: exception instead of a result: %r" % (exc,))

assert not errors, "C13 violated for an aliased per-epoch option list:\n  " + "\n  ".join(errors)
print("OK")
