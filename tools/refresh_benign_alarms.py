#!/usr/bin/env python3
"""Recompute, with the current engine, which quick checks raise an alarm on each filed behaviour-preserving refactor (benign/<id>/patch.diff applied to
scratch worktrees of /repo HEAD), and rewrite the alarm column of benign/RESULTS.json and benign/INDEX.md.  The confirmation data (tests, equivalence
program) recorded by tools/verify_benign.py is kept as it is."""
import glob, json, os, re, subprocess, sys
from concurrent.futures import ThreadPoolExecutor
VERIF = os.path.dirname(os.path.dirname(os.path.abspath(__file__)))
PY = '/venv/bin/python'
PROPS = [f'C{i:02d}' for i in range(1, 21)]
SLOTS = 4


def sh(cmd, cwd=None, env=None):
    p = subprocess.run(cmd, shell=True, cwd=cwd, env=env, capture_output=True, text=True)
    return p.returncode, p.stdout + p.stderr


def one(d, slot):
    wt = f'/tmp/wt/_rb{slot}'
    sh(f'git -C {wt} checkout -q -- . && git -C {wt} clean -fdq')
    rc, out = sh(f'git -C {wt} apply {d}/patch.diff')
    if rc:
        return os.path.basename(d), None
    alarms = {}

    def run(p):
        rc, out = sh(f'{PY} sa/check.py --property {p} --tier quick --root {wt}', cwd=VERIF, env=dict(os.environ, VERIF_NO_EVIDENCE='1'))
        return p, rc, out
    with ThreadPoolExecutor(5) as ex:
        for p, rc, out in ex.map(run, PROPS):
            if rc != 0:
                alarms[p] = {'rc': rc, 'rules': sorted(set(re.findall(r'rule ([A-Z0-9-]+) instance', out)))}
    sh(f'git -C {wt} checkout -q -- . && git -C {wt} clean -fdq')
    return os.path.basename(d), alarms


def main():
    dirs = sorted(glob.glob(f'{VERIF}/benign/C??-ben?'))
    for s in range(SLOTS):
        if not os.path.isdir(f'/tmp/wt/_rb{s}'):
            sh(f'git -C /repo worktree add --detach /tmp/wt/_rb{s} HEAD')
    results = json.load(open(f'{VERIF}/benign/RESULTS.json'))
    residual = json.load(open(f'{VERIF}/benign/RESIDUAL.json'))

    def worker(slot):
        return [one(d, slot) for i, d in enumerate(dirs) if i % SLOTS == slot]
    with ThreadPoolExecutor(SLOTS) as ex:
        for chunk in ex.map(worker, range(SLOTS)):
            for name, alarms in chunk:
                key = name.replace('-', '.')
                if alarms is None or key not in results:
                    print(name, 'skipped', flush=True)
                    continue
                results[key]['alarms'] = alarms
                print(name, 'silent' if not alarms else 'ALARM ' + ' '.join(f'{p}:{"/".join(v["rules"])}' for p, v in sorted(alarms.items())), flush=True)
    for s in range(SLOTS):
        sh(f'git -C /repo worktree remove --force /tmp/wt/_rb{s}')
    json.dump(results, open(f'{VERIF}/benign/RESULTS.json', 'w'), indent=1)
    lines = ['# Behaviour-preserving refactors used as false-alarm probes', '',
             'Written by isolated sub-agents (given one property text and a scratch worktree; nothing from /verif). Confirmed here: the patch applies, the test',
             'suite outcome equals the unmodified tree, and the agent\'s equivalence program (library vs verbatim originals) exits 0. The last column is',
             'recomputed with the current engine by tools/refresh_benign_alarms.py; probes that still alarm are the documented residual (RESIDUAL.json).', '',
             '| probe | kind | tests same | equivalence | checks raising an alarm |', '|---|---|---|---|---|']
    n_al = 0
    for name, res in sorted(results.items()):
        if not res.get('applies'):
            continue
        d = f'{VERIF}/benign/{name.replace(".", "-")}'
        meta = json.load(open(f'{d}/meta.json')) if os.path.exists(f'{d}/meta.json') else {}
        al = ', '.join(f'{p}:{"/".join(v["rules"])}' for p, v in sorted(res.get('alarms', {}).items())) or 'none'
        if res.get('alarms'):
            n_al += 1
            al += ' (documented residual)' if name.replace('.', '-') in residual else ' (NOT DOCUMENTED)'
        lines.append(f'| {name} | {meta.get("kind", "?")} | {res.get("tests_same_as_unmodified")} | rc={res.get("equivalence_rc")} @ {res.get("repo_head", "c010041")} | {al} |')
    lines += ['', f'{len(results) - n_al} of {len(results)} probes are silent; {n_al} still alarm.']
    open(f'{VERIF}/benign/INDEX.md', 'w').write('\n'.join(lines) + '\n')
    undocumented = [n for n, r in results.items() if r.get('alarms') and n.replace('.', '-') not in residual]
    print('alarming:', n_al, 'undocumented:', undocumented)


if __name__ == '__main__':
    main()
