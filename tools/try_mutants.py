#!/usr/bin/python3
"""Development aid: apply each seeded / candidate mutant to a scratch worktree and run the checks with --root.
usage: tools/try_mutants.py [pattern] [props]   (patches: /verif/seeded/*/patch.diff and /tmp/wt/*.diff)"""
import glob, os, subprocess, sys, json
from concurrent.futures import ThreadPoolExecutor
pat = sys.argv[1] if len(sys.argv) > 1 else ''
props = sys.argv[2].split(',') if len(sys.argv) > 2 else None
WT = '/tmp/wt/_try'
if not os.path.isdir(WT):
    subprocess.run(['git', '-C', '/repo', 'worktree', 'add', '-q', '--detach', WT, 'HEAD'], check=True)
head = subprocess.run(['git', '-C', '/repo', 'rev-parse', 'HEAD'], capture_output=True, text=True).stdout.strip()
subprocess.run(['git', '-C', WT, 'checkout', '-q', '--', '.'], check=True)
subprocess.run(['git', '-C', WT, 'checkout', '-q', '--detach', head], check=True)
diffs = sorted(glob.glob('/verif/seeded/*/patch.diff') + glob.glob('/tmp/wt/*.mut?.diff'))
man = json.load(open('/verif/MANIFEST.json'))
claimed = [c['property_id'] for c in man['checks']]
seen = set()


def run(pid):
    p = subprocess.run(['/venv/bin/python', '/verif/sa/check.py', '--property', pid, '--root', WT], capture_output=True, text=True,
                       env=dict(os.environ, VERIF_NO_EVIDENCE='1'))
    return pid, p.returncode


for d in diffs:
    name = os.path.basename(os.path.dirname(d)) if d.endswith('patch.diff') else os.path.basename(d)[:-5]
    if (pat and pat not in name) or name in seen:
        continue
    seen.add(name)
    subprocess.run(['git', '-C', WT, 'checkout', '-q', '--', '.'], check=True)
    r = subprocess.run(['git', '-C', WT, 'apply', d], capture_output=True, text=True)
    if r.returncode:
        print(f'{name}: PATCH DOES NOT APPLY: {r.stderr.strip()[:100]}')
        continue
    with ThreadPoolExecutor(16) as ex:
        res = {k: v for k, v in ex.map(run, props or claimed) if v}
    target = name[:3]
    print(f"{name}: target={target} " + ('DETECTED(target) ' if res.get(target) == 1 else 'unresolved(target) ' if res.get(target) == 2 else 'MISSED(target) ')
          + ' '.join(f'{k}:rc{v}' for k, v in sorted(res.items())), flush=True)
subprocess.run(['git', '-C', WT, 'checkout', '-q', '--', '.'], check=True)
