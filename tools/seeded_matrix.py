#!/usr/bin/python3
"""Apply every confirmed seeded change in /verif/seeded/<id>/patch.diff to /repo itself, run every registered quick check,
undo the change straight afterwards, and record which checks report a violation (MATRIX.json / MATRIX.md)."""
import glob, json, os, subprocess, sys
from concurrent.futures import ThreadPoolExecutor
man = json.load(open('/verif/MANIFEST.json'))
checks = {c['property_id']: c['quick_cmd'] for c in man['checks']}
st = subprocess.run(['git', '-C', '/repo', 'status', '--porcelain'], capture_output=True, text=True).stdout.strip()
if st:
    sys.exit('refusing: /repo has uncommitted changes')


def run(item):
    pid, cmd = item
    p = subprocess.run(cmd, shell=True, cwd='/verif', capture_output=True, text=True, env=dict(os.environ, VERIF_NO_EVIDENCE='1'))
    viol = [l for l in p.stdout.splitlines() if l.startswith('VIOLATION')]
    rules = sorted({l.split(': rule ')[1].split(' instance')[0] for l in p.stdout.splitlines() if ': rule ' in l})
    return pid, p.returncode, bool(viol), rules


matrix = {}
for d in sorted(glob.glob('/verif/seeded/*/patch.diff')):
    sid = os.path.basename(os.path.dirname(d))
    if len(sys.argv) > 1 and sys.argv[1] not in sid:
        continue
    subprocess.run(['git', '-C', '/repo', 'apply', d], check=True)
    try:
        with ThreadPoolExecutor(16) as ex:
            res = list(ex.map(run, checks.items()))
    finally:
        subprocess.run(['git', '-C', '/repo', 'checkout', '--', '.'], check=True)
    target = json.load(open(os.path.join(os.path.dirname(d), 'meta.json')))['breaks_property']
    row = {pid: {'exit': rc, 'rules': rules} for pid, rc, v, rules in res if rc}
    matrix[sid] = {'breaks_property': target, 'target_check_reports_violation': row.get(target, {}).get('exit') == 1, 'alarms': row}
    print(sid, 'target', target, 'DETECTED' if matrix[sid]['target_check_reports_violation'] else 'MISSED', {k: v['rules'] for k, v in row.items()}, flush=True)
if len(sys.argv) > 1 and os.path.exists('/verif/seeded/MATRIX.json'):
    # a pattern re-runs some rows: merge them into the recorded matrix
    full = json.load(open('/verif/seeded/MATRIX.json'))
    full.update(matrix)
    matrix = {k: full[k] for k in sorted(full)}
if True:
    json.dump(matrix, open('/verif/seeded/MATRIX.json', 'w'), indent=1)
    with open('/verif/seeded/MATRIX.md', 'w') as f:
        f.write('| seeded change | breaks | target check | rules that fire (check: rules) |\n|---|---|---|---|\n')
        for sid, m in matrix.items():
            f.write(f"| {sid} | {m['breaks_property']} | {'VIOLATION' if m['target_check_reports_violation'] else 'missed'} | " +
                    '; '.join(f"{k}: {', '.join(v['rules'])}" for k, v in sorted(m['alarms'].items())) + ' |\n')
st = subprocess.run(['git', '-C', '/repo', 'status', '--porcelain'], capture_output=True, text=True).stdout.strip()
print('repo clean after run:', not st)
