#!/opt/veriftools/pyvenv/bin/python
"""Regenerate /verif/MANIFEST.json from sa/manifest_data.py and validate it against the schema."""
import json, os, sys
sys.path.insert(0, os.path.dirname(os.path.dirname(os.path.abspath(__file__))))
from sa.manifest_data import CHECKS, NOT_APPLICABLE, NOTES
props = [json.loads(l) for l in open('/verif/properties.jsonl')]
ids = [p['id'] for p in props]
checks = []
for pid in ids:
    if pid not in CHECKS:
        continue
    c = CHECKS[pid]
    checks.append({
        'property_id': pid,
        'quick_cmd': f'/venv/bin/python sa/check.py --property {pid} --tier quick',
        'thorough_cmd': f'/venv/bin/python sa/check.py --property {pid} --tier thorough',
        'evidence_file': f'/verif/evidence/{pid}.json',
        'replay_cmd_template': '/venv/bin/python sa/check.py --replay {path}',
        'engine': 'sa',
        'level_claimed': {'category': 'other', 'text': c['text'], 'design_ref': f'DESIGN.md section 5, {pid}'},
        'level_note': c['note'],
        'technique': c['technique'],
    })
na = [{'property_id': pid, 'reason': NOT_APPLICABLE.get(pid, 'check not built yet (engine under construction); see DESIGN.md section 5 for the planned rules')}
      for pid in ids if pid not in CHECKS]
m = {
    'version': 1,
    'setup_cmd': '/venv/bin/python -m compileall -q sa',
    'hooks': {
        'guard': 'BYCYCLE_VERIF',
        'enable': 'none needed: the checks read /repo\'s source with ast and never import or run it; the guard name is recorded only because the schema asks for one',
        'baseline_off_cmd': 'cd /repo && /venv/bin/python -m pytest -ra -q -p no:cacheprovider --timeout=900 --continue-on-collection-errors',
        'source_commits': [],
        'add_only': True,
    },
    'engines': [{'name': 'sa', 'path': 'sa/', 'serves_properties': [c['property_id'] for c in checks],
                 'kind_free_text': 'custom static analyser over python ast: source model + call resolution (L0), symbolic normal forms with scenario folding and reference-definition comparison (L2), effect/alias summaries (L3), decision-table extraction, ordered-map / who-may-call rules'}],
    'checks': checks,
    'notes': NOTES,
    'not_applicable': na,
}
json.dump(m, open('/verif/MANIFEST.json', 'w'), indent=1)
try:
    pass
    import jsonschema
    jsonschema.validate(m, json.load(open('/root/.vp/MANIFEST.schema.json')))
    print('MANIFEST.json valid;', len(checks), 'checks,', len(na), 'not applicable')
except ImportError:
    print('jsonschema not importable here; wrote MANIFEST.json without validation')
