#!/usr/bin/env python3
"""Rewrite the block between the WAVES markers of DESIGN.md section 11 from seeded/MATRIX.json (tables rendered by tools/wave_table.py)."""
import subprocess, sys, json, re, os
ROOT = os.path.dirname(os.path.dirname(os.path.abspath(__file__)))
WAVES = [
    ('Fourth wave', ('mutG', 'mutH'), 'authors were told that the listed files had been covered and to look outside them: front ends, helpers, plotting and group code, numerical shortcuts'),
    ('Fifth wave', ('mutI', 'mutJ'), 'arithmetic that looks equivalent, counts, orientation arguments, return contracts, swallowed exceptions'),
    ('Sixth wave', ('mutK', 'mutL'), 'two cooperating edits, convenience shims, ignored parameters, early exits for trivial input, state kept between calls'),
    ('Seventh wave', ('mutM', 'mutN'), 'language, numpy and pandas subtleties: label against position, unstable orderings, late binding, consumed iterators, swallowed keywords, shallow copies'),
    ('Eighth wave', ('mutO',), 'one change per property: the slip in symmetric code - one of two sibling sites gets the other sibling\'s name, index, comparison or offset'),
    ('Ninth wave', ('mutP',), 'one change per property: the statement-level accident a merge, a rebase or a hasty revert leaves behind - a statement executed twice, two statements swapped, a statement moved one indentation level, an `else` re-attached'),
    ('Tenth wave', ('mutQ',), 'one change per property: the well-meant improvement - a fix or optimisation that is right for the case its author had in mind and changes what the property promises elsewhere'),
]
m = json.load(open(os.path.join(ROOT, 'seeded', 'MATRIX.json')))
have = set(m if isinstance(m, dict) else [r.get('id') for r in m])
out = []
for title, sufs, brief in WAVES:
    if not any(any(k.endswith(s) for k in have) for s in sufs):
        continue
    tab = subprocess.run([sys.executable, os.path.join(ROOT, 'tools', 'wave_table.py'), *sufs], capture_output=True, text=True, check=True).stdout.rstrip()
    n = tab.count('\n') - 1
    out.append(f'**{title}** ({n} changes; {brief}):\n\n{tab}\n')
p = os.path.join(ROOT, 'DESIGN.md')
s = open(p).read()
a, b = '<!-- WAVES BEGIN -->', '<!-- WAVES END -->'
assert a in s and b in s
s = s[:s.index(a) + len(a)] + '\n\n' + '\n'.join(out) + '\n' + s[s.index(b):]
open(p, 'w').write(s)
print('inserted', len(out), 'wave tables')
