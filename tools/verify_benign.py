#!/usr/bin/env python3
"""Confirm behaviour-preserving refactors (false-alarm probes) and file them under /verif/benign/<id>/.

For each /tmp/wt/Cxx.ben?.diff (+ .equiv.py, .meta.json) written by an isolated sub-agent:
  1. apply it to a scratch worktree of /repo (outside /repo and /verif, removed afterwards),
  2. run the repository's test suite there and compare the outcome with the unmodified tree,
  3. run the agent's equivalence program (library vs verbatim originals) against the patched tree,
  4. run all 20 quick checks against the patched tree and record which (if any) raise an alarm.
Nothing here is a registered check: it is the tooling that produced benign/INDEX.md.
"""
import glob
import json
import os
import re
import shutil
import subprocess
import sys
from concurrent.futures import ThreadPoolExecutor

VERIF = os.path.dirname(os.path.dirname(os.path.abspath(__file__)))
PY = '/venv/bin/python'
PROPS = [f'C{i:02d}' for i in range(1, 21)]


def sh(cmd, cwd=None, env=None, timeout=1800):
    p = subprocess.run(cmd, shell=True, cwd=cwd, env=env, capture_output=True, text=True, timeout=timeout)
    return p.returncode, p.stdout + p.stderr


def tests(tree):
    out = ''
    for attempt in range(4):        # a forked multiprocessing pool occasionally deadlocks under load: bounded and retried
        try:
            rc, out = sh(f'timeout -k 5 240 {PY} -m pytest -q -p no:cacheprovider --timeout=200 -x --deselect bycycle/tests/utils/test_download.py '
                         f'--deselect bycycle/tests/test_persistence.py 2>&1 | tail -3', cwd=tree, timeout=300)
            if 'passed' in out:
                break
        except subprocess.TimeoutExpired:
            continue
    m = re.search(r'(\d+) passed', out)
    f = re.search(r'(\d+) failed', out)
    return int(m.group(1)) if m else 0, int(f.group(1)) if f else 0


def one(diff, slot, base):
    name = os.path.basename(diff)[:-5]
    wt = f'/tmp/wt/_vb{slot}'
    sh(f'git -C {wt} checkout -q -- . && git -C {wt} clean -fdq')
    rc, out = sh(f'git -C {wt} apply {diff}')
    if rc:
        return name, {'applies': False, 'detail': out[-300:]}
    res = {'applies': True}
    res['tests'] = tests(wt)
    res['tests_same_as_unmodified'] = res['tests'] == base
    eq = diff[:-5] + '.equiv.py'
    if os.path.exists(eq):
        env = dict(os.environ, BYCYCLE_ROOT=wt, MPLBACKEND='Agg')
        rc, out = sh(f'{PY} {eq}', cwd='/tmp', env=env, timeout=3600)
        res['equivalence_rc'] = rc
        res['equivalence_tail'] = out.strip().splitlines()[-2:]
    alarms = {}
    for p in PROPS:
        rc, out = sh(f'{PY} sa/check.py --property {p} --tier quick --root {wt}', cwd=VERIF, env=dict(os.environ, VERIF_NO_EVIDENCE='1'))
        if rc != 0:
            alarms[p] = {'rc': rc, 'rules': sorted(set(re.findall(r'rule ([A-Z0-9-]+) instance', out)))}
    res['alarms'] = alarms
    sh(f'git -C {wt} checkout -q -- . && git -C {wt} clean -fdq')
    return name, res


def main():
    pat = sys.argv[1] if len(sys.argv) > 1 else ''
    diffs = sorted(d for d in glob.glob('/tmp/wt/C??.ben?.diff') if pat in d)
    slots = 8
    for s in range(slots):
        wt = f'/tmp/wt/_vb{s}'
        if not os.path.isdir(wt):
            sh(f'git -C /repo worktree add --detach {wt} HEAD')
    base = tests('/tmp/wt/_vb0')
    print('unmodified tree:', base, flush=True)
    results = {}

    def worker(slot):
        out = []
        for i, d in enumerate(diffs):
            if i % slots == slot:
                out.append(one(d, slot, base))
        return out
    with ThreadPoolExecutor(slots) as ex:
        for chunk in ex.map(worker, range(slots)):
            for name, res in chunk:
                results[name] = res
                print(name, json.dumps(res)[:300], flush=True)
    for s in range(slots):
        sh(f'git -C /repo worktree remove --force /tmp/wt/_vb{s}')
    os.makedirs(f'{VERIF}/benign', exist_ok=True)
    head = sh('git -C /repo rev-parse --short HEAD')[1].strip()
    for r in results.values():
        r['repo_head'] = head
    prev = {}
    if os.path.exists(f'{VERIF}/benign/RESULTS.json'):
        prev = json.load(open(f'{VERIF}/benign/RESULTS.json'))
    prev.update(results)          # earlier confirmations are kept; probes verified in this run are refreshed
    new_names = set(results)
    results = prev
    lines = ['# Behaviour-preserving refactors used as false-alarm probes', '',
             'Written by isolated sub-agents (given one property text and a scratch worktree; nothing from /verif). Confirmed here: the patch applies, the test',
             'suite outcome equals the unmodified tree, and the agent\'s equivalence program (library vs verbatim originals) exits 0.', '',
             '| probe | kind | tests same | equivalence | checks raising an alarm |', '|---|---|---|---|---|']
    for name, res in sorted(results.items()):
        if not res.get('applies'):
            continue
        d = f'{VERIF}/benign/{name.replace(".", "-")}'
        os.makedirs(d, exist_ok=True)
        if name not in new_names:
            meta = json.load(open(f'{d}/meta.json')) if os.path.exists(f'{d}/meta.json') else {}
            al = ', '.join(f'{p}:{"/".join(v["rules"])}' for p, v in sorted(res.get('alarms', {}).items())) or 'none'
            lines.append(f'| {name} | {meta.get("kind", "?")} | {res.get("tests_same_as_unmodified")} | rc={res.get("equivalence_rc")} @ {res.get("repo_head", "c010041")} | {al} |')
            continue
        shutil.copy(f'/tmp/wt/{name}.diff', f'{d}/patch.diff')
        if os.path.exists(f'/tmp/wt/{name}.equiv.py'):
            shutil.copy(f'/tmp/wt/{name}.equiv.py', f'{d}/equiv.py')
        meta = {}
        if os.path.exists(f'/tmp/wt/{name}.meta.json'):
            try:
                meta = json.load(open(f'/tmp/wt/{name}.meta.json'))
            except Exception:
                meta = {'raw': open(f'/tmp/wt/{name}.meta.json').read()}
        meta['confirmed'] = res
        json.dump(meta, open(f'{d}/meta.json', 'w'), indent=1)
        al = ', '.join(f'{p}:{"/".join(v["rules"])}' for p, v in sorted(res['alarms'].items())) or 'none'
        lines.append(f'| {name} | {meta.get("kind", "?")} | {res["tests_same_as_unmodified"]} | rc={res.get("equivalence_rc")} @ {res.get("repo_head")} | {al} |')
    open(f'{VERIF}/benign/INDEX.md', 'w').write('\n'.join(lines) + '\n')
    json.dump(results, open(f'{VERIF}/benign/RESULTS.json', 'w'), indent=1)


if __name__ == '__main__':
    main()
