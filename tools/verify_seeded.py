#!/usr/bin/python3
"""Confirm candidate mutants (from /tmp/wt/*.diff) independently and store the confirmed ones under /verif/seeded/<id>/.
For each: patch applies to HEAD; the set of passing tests is unchanged; the demonstration exits 0 without and non-zero with the patch."""
import glob, json, os, subprocess, sys, shutil, xml.etree.ElementTree as ET
from concurrent.futures import ThreadPoolExecutor

HEAD = subprocess.run(['git', '-C', '/repo', 'rev-parse', 'HEAD'], capture_output=True, text=True).stdout.strip()


def tests(wt, tag):
    x = f'/tmp/wt/_junit_{tag}.xml'
    for attempt in range(3):        # a forked multiprocessing pool occasionally deadlocks under load: bounded, retried
        try:
            subprocess.run(['/venv/bin/python', '-m', 'pytest', '-q', '-p', 'no:cacheprovider', '--timeout=900', '--continue-on-collection-errors', f'--junitxml={x}'],
                           cwd=wt, capture_output=True, text=True, env=dict(os.environ, PYTHONPATH=wt), timeout=600)
            break
        except subprocess.TimeoutExpired:
            subprocess.run(['pkill', '-f', f'junitxml={x}'])
    ok = set()
    for tc in ET.parse(x).getroot().iter('testcase'):
        if not any(c.tag in ('failure', 'error', 'skipped') for c in tc):
            ok.add(f"{tc.get('classname')}::{tc.get('name')}")
    os.remove(x)
    return ok


def demo(wt, path):
    p = subprocess.run(['/venv/bin/python', path], cwd=wt, capture_output=True, text=True, env=dict(os.environ, BYCYCLE_ROOT=wt), timeout=600)
    return p.returncode, (p.stdout + p.stderr)[-400:]


def one(args):
    name, wt, base = args
    d, dm, mt = f'/tmp/wt/{name}.diff', f'/tmp/wt/{name}.demo.py', f'/tmp/wt/{name}.meta.json'
    subprocess.run(['git', '-C', wt, 'checkout', '-q', '--', '.'])
    subprocess.run(['git', '-C', wt, 'checkout', '-q', '--detach', HEAD])
    out = {'id': name.replace('.', '-'), 'property': name[:3]}
    rc0, tail0 = demo(wt, dm)
    out['demo_without_patch_exit'] = rc0
    r = subprocess.run(['git', '-C', wt, 'apply', d], capture_output=True, text=True)
    if r.returncode:
        out['error'] = 'patch does not apply: ' + r.stderr[:200]
        return out
    rc1, tail1 = demo(wt, dm)
    out['demo_with_patch_exit'] = rc1
    out['demo_failure_tail'] = tail1
    t = tests(wt, name)
    out['tests_passing_with_patch'] = len(t)
    out['tests_lost'] = sorted(base - t)
    out['tests_gained'] = sorted(t - base)
    subprocess.run(['git', '-C', wt, 'checkout', '-q', '--', '.'])
    out['confirmed'] = rc0 == 0 and rc1 != 0 and not out['tests_lost']
    if os.path.exists(mt):
        try:
            out['author_meta'] = json.load(open(mt))
        except Exception:
            out['author_meta'] = open(mt).read()[:2000]
    return out


def main():
    names = sorted(os.path.basename(p)[:-5] for p in glob.glob('/tmp/wt/C??.mut?.diff'))
    if len(sys.argv) > 1:
        names = [n for n in names if sys.argv[1] in n]
    base = tests('/tmp/wt/C01', 'base')
    print('baseline passing', len(base), flush=True)
    # one worktree per property: the two mutants of a property run sequentially
    jobs = {}
    for n in names:
        jobs.setdefault(n[:3], []).append(n)

    def chain(prop):
        return [one((n, f'/tmp/wt/{prop}', base)) for n in jobs[prop]]
    with ThreadPoolExecutor(5) as ex:
        for res in ex.map(chain, sorted(jobs)):
            for o in res:
                print(o['id'], 'CONFIRMED' if o.get('confirmed') else 'REJECTED', {k: o[k] for k in ('demo_without_patch_exit', 'demo_with_patch_exit', 'tests_lost') if k in o}, flush=True)
                if o.get('confirmed'):
                    dst = f"/verif/seeded/{o['id']}"
                    os.makedirs(dst, exist_ok=True)
                    name = o['id'].replace('-', '.')
                    shutil.copy(f'/tmp/wt/{name}.diff', f'{dst}/patch.diff')
                    shutil.copy(f'/tmp/wt/{name}.demo.py', f'{dst}/demo.py')
                    am = o.pop('author_meta', {})
                    meta = {'id': o['id'], 'breaks_property': o['property'],
                            'summary': am.get('summary') if isinstance(am, dict) else None,
                            'needs_to_manifest': am.get('needs_to_manifest') if isinstance(am, dict) else None,
                            'files_changed': am.get('files_changed') if isinstance(am, dict) else None,
                            'confirmed_by': {'repo_head': HEAD, 'patch_applies': True, 'demo_exit_without_patch': o['demo_without_patch_exit'],
                                             'demo_exit_with_patch': o['demo_with_patch_exit'], 'demo_failure_tail': o['demo_failure_tail'],
                                             'baseline_tests_passing': len(base), 'tests_passing_with_patch': o['tests_passing_with_patch'],
                                             'tests_lost': o['tests_lost'],
                                             'commands': ['git apply patch.diff (scratch worktree of /repo HEAD)', 'BYCYCLE_ROOT=<worktree> /venv/bin/python demo.py',
                                                          '/venv/bin/python -m pytest -q -p no:cacheprovider --timeout=900 (junit pass-set compared with the unpatched worktree)']},
                            'origin': 'written by an independent sub-agent given only the property text and a scratch worktree'}
                    json.dump(meta, open(f'{dst}/meta.json', 'w'), indent=1)


main()
