#!/usr/bin/python3
"""Development aid: apply each behaviour-preserving refactoring (/tmp/wt/*.ben?.diff, /verif/benign/*/patch.diff) to a scratch worktree and run ALL checks:
any non-zero exit is a false alarm to triage."""
import glob, os, subprocess, sys, json
from concurrent.futures import ThreadPoolExecutor
pat = sys.argv[1] if len(sys.argv) > 1 else ''
WT = '/tmp/wt/_tryb'
if not os.path.isdir(WT):
    subprocess.run(['git', '-C', '/repo', 'worktree', 'add', '-q', '--detach', WT, 'HEAD'], check=True)
head = subprocess.run(['git', '-C', '/repo', 'rev-parse', 'HEAD'], capture_output=True, text=True).stdout.strip()
subprocess.run(['git', '-C', WT, 'checkout', '-q', '--', '.'], check=True)
subprocess.run(['git', '-C', WT, 'checkout', '-q', '--detach', head], check=True)
man = json.load(open('/verif/MANIFEST.json'))
claimed = [c['property_id'] for c in man['checks']]


def run(pid):
    p = subprocess.run(['/venv/bin/python', '/verif/sa/check.py', '--property', pid, '--root', WT], capture_output=True, text=True, env=dict(os.environ, VERIF_NO_EVIDENCE='1'))
    rules = sorted({l.split(': rule ')[1].split(' instance')[0] for l in p.stdout.splitlines() if ': rule ' in l} | {'ANALYSIS-ERROR:' + l.split('rule=')[1].split(' ')[0] for l in p.stdout.splitlines() if l.startswith('ANALYSIS-ERROR')})
    return pid, p.returncode, rules


seen = set()
for d in sorted(glob.glob('/verif/benign/*/patch.diff') + glob.glob('/tmp/wt/*.ben?.diff')):
    name = os.path.basename(os.path.dirname(d)) if d.endswith('patch.diff') else os.path.basename(d)[:-5]
    name = name.replace('-', '.')
    if (pat and pat not in name) or name in seen:
        continue
    seen.add(name)
    subprocess.run(['git', '-C', WT, 'checkout', '-q', '--', '.'], check=True)
    r = subprocess.run(['git', '-C', WT, 'apply', d], capture_output=True, text=True)
    if r.returncode:
        print(f'{name}: PATCH DOES NOT APPLY: {r.stderr.strip()[:100]}')
        continue
    with ThreadPoolExecutor(8) as ex:
        res = {k: (rc, rules) for k, rc, rules in ex.map(run, claimed) if rc}
    print(f'{name}: ' + ('silent' if not res else 'FALSE ALARM ' + ' '.join(f'{k}:rc{v[0]}{v[1]}' for k, v in sorted(res.items()))), flush=True)
subprocess.run(['git', '-C', WT, 'checkout', '-q', '--', '.'], check=True)
