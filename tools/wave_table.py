#!/usr/bin/env python3
"""Render the DESIGN.md section-11 table rows of one wave of seeded changes from seeded/MATRIX.json and the hand-written one-line descriptions below."""
import json, sys
DESC = {
 'C01-mutE': ('peak / trough search windows share their end sample (`sig[start:stop + 1]` in a shared helper)', 'signal monotonic across a whole half-wave (oscillation on a large slow component)'),
 'C01-mutF': ('crossing search inlined into `_find_flank_midpoints`, the "no crossing found" fallback is lost', 'flank whose two extrema have the same non-zero voltage (plateau, stuck amplifier)'),
 'C02-mutE': ('padding skipped when `boundary >= filt_len / 2`', '`pad=True`, large boundary, short filter'),
 'C02-mutF': ('vectorised per-window extremum, last tie wins', 'exact ties at a half-wave extreme (clipped / integer data)'),
 'C03-mutE': ('"all zeros" guard widened to `first == last`', 'extrema at exactly the same voltage with an off-centre crossing'),
 'C03-mutF': ('flank counts from `min(len(peaks), len(troughs))`', 'odd-length extrema sequence (`first_extrema=None`)'),
 'C04-mutE': ('`rename_extrema_df` skips the conversion when `get_extrema_df` already says "trough"', 'helper called on a table without sample columns'),
 'C04-mutF': ('signal zero-padded to `next_fast_len` before the Hilbert amplitude', 'signal length with a prime factor > 11'),
 'C05-mutE': ('`rank()` → `searchsorted(sort(amps), amps, side="right")`', 'tied amplitudes'),
 'C05-mutF': ('`np.nanmin` ladder → builtin `min` over a list with NaN', '0/0 flank ratio in the first slot'),
 'C06-mutE': ('vectorised run filter `segment_durations >= min_n_cycles`', '`min_n_cycles=0`'),
 'C06-mutF': ('edge rows cleared after the run filter instead of before', 'qualifying first / last row next to a short run'),
 'C07-mutE': ('transitions from neighbour comparison, trailing run has no offset', 'table ending inside a short burst (amp method)'),
 'C07-mutF': ('burst fraction via `searchsorted(..., side="left")`', 'sample-wise burst edge exactly on a closing extremum'),
 'C08-mutE': ('cumulative-sum clearing with `off` clipped to `len - 1`', 'short run touching the end'),
 'C08-mutF': ('early return `len(is_burst) < min_n_cycles`', 'array shorter than `min_n_cycles` holding a True'),
 'C09-mutE': ('direction test folded into `(diff > 0) == first_rises`', 'trough-centred table with flat sample pairs'),
 'C09-mutF': ('carried flank-pair consistency seeded with the peak-centred pairing', 'trough-centred table, row 1'),
 'C10-mutE': ('`n_cycles = min(n_cycles, (len(sig) - 1) / fs)` (cycles vs seconds)', 'recording shorter than 3 s in the unit of fs'),
 'C10-mutF': ('upper band edge clipped to `fs / 2 - 1` (absolute 1 Hz)', 'band edge within 1 Hz of Nyquist'),
 'C11-mutE': ('common settings kept in a module-level dict updated per row inside the worker', 'per-row option dicts with different key sets'),
 'C11-mutF': ('`axis = None` fast path for a single row', 'one row with `return_samples=False`'),
 'C12-mutE': ('`epoch_df` by `groupby` on the epoch index', 'an epoch in which no cycle ends'),
 'C12-mutF': ('`Bycycle.load` rejects `max(sample_*) >= len(sig)`', 'cycle ending exactly on an epoch boundary (`BycycleGroup.fit`, axis 0 / 1)'),
 'C13-mutE': ('`epoch_df` by `pd.cut` + `groupby`', 'an epoch without a closing extremum'),
 'C13-mutF': ('per-epoch list with equal entries collapsed to one shared option set', '`axis=None`, `[opts] * n`, burst across an epoch boundary'),
 'C14-mutE': ('`Bycycle.recompute_edges` returns early when no cycle is bursting', 'burst-free fitted table, reduction admits a burst'),
 'C14-mutF': ('shorthand expansion builds a new thresholds dict', 'group thresholds edited after `fit`, then `recompute_edges`'),
 'C15-mutE': ('`np.negative(sig, out=sig)` twice around the trough-centred computation', 'trough-centred call that raises between the two flips'),
 'C15-mutF': ('`imap_unordered` when a progress bar is requested', '`progress` given, `n_jobs > 1`, a later job finishing first'),
 'C16-mutE': ('three-row window shifted inwards at the table borders, result still read at position 1', 'burst starting at row 1 / ending at row n-2'),
 'C16-mutF': ('new labels OR-ed with the input burst mask', 'stricter thresholds / larger `min_n_cycles` / negative reduction'),
 'C17-mutE': ('anchoring loop exits with `break` on a missing midpoint array', '`decays` given without `rises`'),
 'C17-mutF': ('`_merge_phases` rewritten as a loop over troughs with `searchsorted`', 'first cyclepoint is a trough'),
 'C18-mutE': ('`limit_df` compares samples with `fs * limit`', 'limit exactly on a cycle edge, fs not a power of two'),
 'C18-mutF': ('`flatten_dfs` drops empty tables before zipping with the labels', 'a non-trailing empty table'),
 'C19-mutE': ('local `check_param_range` tolerant within `np.isclose`', 'value out of range by less than the tolerance'),
 'C19-mutF': ('sequential branch for `n_jobs == 1` never calls `progress_bar`', 'unknown `progress` with `n_jobs=1`'),
 'C20-mutE': ('burst mask by cumulative sum with the end index clamped', 'burst cycle closing on the last sample of the view'),
 'C20-mutF': ('step times `samples / fs` after `limit_df(reset_indices=True)`', '`interp=False` with `xlim[0] > 0`'),
}
m = json.load(open('/verif/seeded/MATRIX.json'))
suffixes = sys.argv[1:] or ['mutE', 'mutF']
print('| change | what it does | needs | reported by (rule) |\n|---|---|---|---|')
for sid in sorted(m, key=lambda s: (s[:3], s[4:])):
    if not any(sid.endswith(x) for x in suffixes):
        continue
    what, needs = DESC.get(sid, ('?', '?'))
    t = m[sid]['breaks_property']
    al = m[sid]['alarms']
    order = [t] + sorted(k for k in al if k != t)
    rep = '; '.join(f"{k} " + ', '.join(f'`{r}`' for r in al[k]['rules']) for k in order if k in al)
    print(f'| {sid} | {what} | {needs} | {rep} |')
