#!/usr/bin/env python3
"""Whole-package behaviour-preserving rewrites, as false-alarm probes for all 20 checks.

Each transformation is applied to every non-test module of a scratch worktree of /repo (outside /repo and /verif, removed afterwards); the test suite
must give the same result as on HEAD and every quick check must stay silent (exit 0, no VIOLATION line; C16 keeps its two keyed known findings).
Results go to benign/GLOBAL.json / GLOBAL.md.

    python3 tools/global_benign.py [name ...]
"""
import ast
import glob
import json
import os
import subprocess
import symtable
import sys

WT = '/tmp/wt/_glob'
PY = '/venv/bin/python'
PROPS = [f'C{i:02d}' for i in range(1, 21)]


def sh(*cmd, cwd=None, timeout=None, env=None):
    try:
        p = subprocess.run(cmd, cwd=cwd, capture_output=True, text=True, timeout=timeout, env=env)
        return p.returncode, p.stdout + p.stderr
    except subprocess.TimeoutExpired:
        return 124, 'timeout'


def modules(root):
    return [p for p in sorted(glob.glob(root + '/bycycle/**/*.py', recursive=True)) if '/tests/' not in p]


# ------------------------------------------------------------------------------------------------ transformations (tree -> count of edits)
def t_reformat(tree, src, path):
    """re-emit every module through ast.unparse: layout, quoting, parenthesisation and all comments change"""
    return 1


def _function_tables(src, path):
    st = symtable.symtable(src, path, 'exec')
    out = {}

    def rec(t):
        for c in t.get_children():
            out.setdefault((c.get_name(), c.get_lineno()), c)
            rec(c)
    rec(st)
    return out


def _top_functions(node):
    for ch in ast.iter_child_nodes(node):
        if isinstance(ch, ast.FunctionDef):
            yield ch
        elif isinstance(ch, ast.ClassDef):
            yield from _top_functions(ch)


def t_alpha(tree, src, path):
    """rename every assigned local (not a parameter, not an import, not a nested definition) of every function consistently"""
    tabs = _function_tables(src, path)
    n = 0

    class R(ast.NodeTransformer):
        def __init__(self, names):
            self.names = names

        def visit_Name(self, node):
            node.id = self.names.get(node.id, node.id)
            return node

        def visit_arg(self, node):
            node.arg = self.names.get(node.arg, node.arg)
            return node

        def visit_ExceptHandler(self, node):
            self.generic_visit(node)
            if node.name in self.names:
                node.name = self.names[node.name]
            return node
    for fn in _top_functions(tree):
        t = tabs.get((fn.name, fn.lineno))
        if t is None or t.get_type() != 'function' or any(isinstance(x, (ast.Global, ast.Nonlocal)) for x in ast.walk(fn)):
            continue
        imported = {a.asname or a.name.split('.')[0] for x in ast.walk(fn) if isinstance(x, (ast.Import, ast.ImportFrom)) for a in x.names}
        nested = {x.name for x in ast.walk(fn) if isinstance(x, (ast.FunctionDef, ast.ClassDef)) and x is not fn}
        names = {s.get_name(): s.get_name() + '_v' for s in t.get_symbols()
                 if s.is_local() and s.is_assigned() and not s.is_parameter() and s.get_name() not in imported | nested and not s.get_name().startswith('__')}
        r = R(names)
        fn.body = [r.visit(b) for b in fn.body]
        n += len(names)
    return n


def _nan_safe(test):
    """conditions whose negation is exact (no ordering comparison that NaN could make false both ways)"""
    for x in ast.walk(test):
        if isinstance(x, ast.Compare) and any(isinstance(o, (ast.Lt, ast.LtE, ast.Gt, ast.GtE)) for o in x.ops):
            return False
    return True


def t_flip_if(tree, src, path):
    """if c: A else: B  ->  if not c: B else: A   (two-armed statements and conditional expressions; elif chains left alone)"""
    n = 0

    class R(ast.NodeTransformer):
        def visit_If(self, node):
            nonlocal n
            self.generic_visit(node)
            if node.orelse and not (len(node.orelse) == 1 and isinstance(node.orelse[0], ast.If)) and _nan_safe(node.test):
                node.test = ast.UnaryOp(ast.Not(), node.test)
                node.body, node.orelse = node.orelse, node.body
                n += 1
            return node

        def visit_IfExp(self, node):
            nonlocal n
            self.generic_visit(node)
            if _nan_safe(node.test):
                node.test = ast.UnaryOp(ast.Not(), node.test)
                node.body, node.orelse = node.orelse, node.body
                n += 1
            return node
    R().visit(tree)
    return n


def t_return_temp(tree, src, path):
    """return <expr>  ->  _result = <expr>; return _result   (in every function returning a non-trivial expression)"""
    n = 0

    class R(ast.NodeTransformer):
        def visit_Lambda(self, node):
            return node

        def visit_Return(self, node):
            nonlocal n
            if node.value is None or isinstance(node.value, (ast.Name, ast.Constant)):
                return node
            n += 1
            return [ast.Assign([ast.Name('_result', ast.Store())], node.value, lineno=node.lineno), ast.Return(ast.Name('_result', ast.Load()))]
    R().visit(tree)
    return n


def _package_signatures(root):
    sigs = {}
    for p in modules(root):
        for node in ast.parse(open(p).read()).body:
            if isinstance(node, ast.FunctionDef):
                a = node.args
                if a.vararg is None and not a.posonlyargs:
                    sigs.setdefault(node.name, []).append([x.arg for x in a.args])
    return {k: v[0] for k, v in sigs.items() if len(v) == 1}


def t_keywordise(tree, src, path, sigs):
    """f(a, b, c) -> f(a, b=b_expr, c=c_expr) for calls of module-level package functions (unique name, no *args): positional arguments after the first
    are passed by keyword"""
    n = 0
    local_defs = {x.name for x in ast.walk(tree) if isinstance(x, ast.FunctionDef)}
    imported = {a.asname or a.name for x in ast.walk(tree) if isinstance(x, ast.ImportFrom) and (x.module or '').startswith('bycycle') for a in x.names}

    class R(ast.NodeTransformer):
        def visit_Call(self, node):
            nonlocal n
            self.generic_visit(node)
            if isinstance(node.func, ast.Name) and node.func.id in sigs and node.func.id in (imported | local_defs) and \
                    not any(isinstance(a, ast.Starred) for a in node.args) and len(node.args) > 1 and len(node.args) <= len(sigs[node.func.id]):
                params = sigs[node.func.id]
                # keyword arguments must follow the remaining positional ones and precede **kwargs
                new_kw = [ast.keyword(params[i], node.args[i]) for i in range(1, len(node.args))]
                if {k.arg for k in new_kw} & {k.arg for k in node.keywords}:
                    return node
                stars = [k for k in node.keywords if k.arg is None]
                named = [k for k in node.keywords if k.arg is not None]
                node.args = node.args[:1]
                node.keywords = new_kw + named + stars
                n += 1
            return node
    R().visit(tree)
    return n


def t_reorder_defs(tree, src, path):
    """module-level function definitions in reverse order (imports, constants and classes stay where they are)"""
    idx = [i for i, x in enumerate(tree.body) if isinstance(x, ast.FunctionDef) and not x.decorator_list]
    # only when no module-level statement between them uses them (dispatch tables, decorators): keep it simple, require all defs contiguous at the end or
    # followed only by other defs / classes
    if len(idx) < 2:
        return 0
    used_at_module_level = {n_.id for i, x in enumerate(tree.body) if not isinstance(x, (ast.FunctionDef, ast.ClassDef)) for n_ in ast.walk(x) if isinstance(n_, ast.Name)}
    if used_at_module_level & {tree.body[i].name for i in idx}:
        return 0
    fns = [tree.body[i] for i in idx][::-1]
    for i, f in zip(idx, fns):
        tree.body[i] = f
    return len(idx)


def t_demorgan(tree, src, path):
    """a and b -> not (not a or not b);  a or b -> not (not a and not b)   in if / while tests only (truth value context), NaN-safe operands only"""
    n = 0

    def rewrite(test):
        nonlocal n
        if isinstance(test, ast.BoolOp) and _nan_safe(test):
            other = ast.Or() if isinstance(test.op, ast.And) else ast.And()
            n += 1
            return ast.UnaryOp(ast.Not(), ast.BoolOp(other, [ast.UnaryOp(ast.Not(), v) for v in test.values]))
        return test

    class R(ast.NodeTransformer):
        def visit_If(self, node):
            self.generic_visit(node)
            node.test = rewrite(node.test)
            return node

        def visit_While(self, node):
            self.generic_visit(node)
            node.test = rewrite(node.test)
            return node
    R().visit(tree)
    return n


def t_none_guard(tree, src, path):
    """x is None -> None is x,  x is not None -> not (x is None),  x == 'lit' -> 'lit' == x"""
    n = 0

    class R(ast.NodeTransformer):
        def visit_Compare(self, node):
            nonlocal n
            self.generic_visit(node)
            if len(node.ops) == 1 and isinstance(node.comparators[0], ast.Constant) and not isinstance(node.left, ast.Constant):
                op = node.ops[0]
                if isinstance(op, ast.Is):
                    n += 1
                    return ast.Compare(node.comparators[0], [ast.Is()], [node.left])
                if isinstance(op, ast.IsNot):
                    n += 1
                    return ast.UnaryOp(ast.Not(), ast.Compare(node.left, [ast.Is()], [node.comparators[0]]))
                if isinstance(op, ast.Eq) and isinstance(node.comparators[0].value, str):
                    n += 1
                    return ast.Compare(node.comparators[0], [ast.Eq()], [node.left])
            return node
    R().visit(tree)
    return n


def t_unpack(tree, src, path):
    """a, b = <call>  ->  _t = <call>; a = _t[0]; b = _t[1]   (plain-name targets only)"""
    n = 0

    class R(ast.NodeTransformer):
        def visit_Assign(self, node):
            nonlocal n
            if len(node.targets) == 1 and isinstance(node.targets[0], ast.Tuple) and all(isinstance(e, ast.Name) for e in node.targets[0].elts) and \
                    isinstance(node.value, ast.Call):
                n += 1
                out = [ast.Assign([ast.Name('_t', ast.Store())], node.value, lineno=node.lineno)]
                for i, e in enumerate(node.targets[0].elts):
                    out.append(ast.Assign([ast.Name(e.id, ast.Store())], ast.Subscript(ast.Name('_t', ast.Load()), ast.Constant(i), ast.Load()), lineno=node.lineno))
                return out
            return node
    R().visit(tree)
    return n


def t_wrap(tree, src, path):
    """every undecorated module-level function F becomes a thin wrapper (same signature, defaults and docstring) around _F_impl holding the original body"""
    n = 0
    new_body = []
    used_at_module_level = {n_.id for x in tree.body if not isinstance(x, (ast.FunctionDef, ast.ClassDef)) for n_ in ast.walk(x) if isinstance(n_, ast.Name)}
    for node in tree.body:
        if not (isinstance(node, ast.FunctionDef) and not node.decorator_list and node.name not in used_at_module_level and not node.name.startswith('__')):
            new_body.append(node)
            continue
        a = node.args
        impl = ast.FunctionDef('_' + node.name.lstrip('_') + '_impl', a, [b for b in node.body], [], lineno=node.lineno)
        doc = ast.get_docstring(node, clean=False)
        if doc is not None:
            impl.body = impl.body[1:] or [ast.Pass()]
        call = ast.Call(ast.Name(impl.name, ast.Load()),
                        [ast.Name(x.arg, ast.Load()) for x in a.posonlyargs + a.args] + ([ast.Starred(ast.Name(a.vararg.arg, ast.Load()), ast.Load())] if a.vararg else []),
                        [ast.keyword(x.arg, ast.Name(x.arg, ast.Load())) for x in a.kwonlyargs] + ([ast.keyword(None, ast.Name(a.kwarg.arg, ast.Load()))] if a.kwarg else []))
        wrapper = ast.FunctionDef(node.name, a, ([ast.Expr(ast.Constant(doc))] if doc is not None else []) + [ast.Return(call)], [], lineno=node.lineno)
        new_body += [impl, wrapper]
        n += 1
    tree.body = new_body
    return n


def t_logical_and(tree, src, path):
    """(a < b) & (c < d)  ->  np.logical_and(a < b, c < d)   and | -> np.logical_or, where both operands are comparisons and the module imports numpy as np"""
    if not any(isinstance(x, ast.Import) and any(a.name == 'numpy' and a.asname == 'np' for a in x.names) for x in tree.body):
        return 0
    n = 0

    class R(ast.NodeTransformer):
        def visit_BinOp(self, node):
            nonlocal n
            self.generic_visit(node)
            if isinstance(node.op, (ast.BitAnd, ast.BitOr)) and isinstance(node.left, ast.Compare) and isinstance(node.right, ast.Compare):
                n += 1
                fn = 'logical_and' if isinstance(node.op, ast.BitAnd) else 'logical_or'
                return ast.Call(ast.Attribute(ast.Name('np', ast.Load()), fn, ast.Load()), [node.left, node.right], [])
            return node
    R().visit(tree)
    return n


TRANSFORMS = {
    'reformat': t_reformat, 'alpha': t_alpha, 'flip_if': t_flip_if, 'return_temp': t_return_temp, 'keywordise': t_keywordise, 'reorder_defs': t_reorder_defs,
    'demorgan': t_demorgan, 'none_guard': t_none_guard, 'unpack': t_unpack, 'wrap': t_wrap, 'logical_and': t_logical_and,
}


def tests(root):
    rc, out = sh('timeout', '900', PY, '-m', 'pytest', '-q', '-p', 'no:cacheprovider', 'bycycle', cwd=root, timeout=1000)
    tail = [l for l in out.splitlines() if ' passed' in l or ' failed' in l]
    failed = sorted(l.split(' - ')[0] for l in out.splitlines() if l.startswith('FAILED'))
    return (tail[-1].split(' in ')[0].strip('= ') if tail else f'rc={rc}'), failed


def main():
    which = [a for a in sys.argv[1:] if a in TRANSFORMS] or list(TRANSFORMS)
    head = sh('git', '-C', '/repo', 'rev-parse', 'HEAD')[1].strip()
    if os.path.isdir(WT):
        sh('git', '-C', '/repo', 'worktree', 'remove', '--force', WT)
    sh('git', '-C', '/repo', 'worktree', 'add', '-q', '--detach', WT, head)
    base_tests = tests(WT)
    results = {}
    if os.path.exists('/verif/benign/GLOBAL.json'):
        results = json.load(open('/verif/benign/GLOBAL.json')).get('results', {})
    env = dict(os.environ, VERIF_NO_EVIDENCE='1')
    for name in which:
        sh('git', '-C', WT, 'checkout', '-q', '--', '.')
        sigs = _package_signatures(WT)
        edits = 0
        for p in modules(WT):
            src = open(p).read()
            tree = ast.parse(src)
            fn = TRANSFORMS[name]
            edits += fn(tree, src, p, sigs) if name == 'keywordise' else fn(tree, src, p)
            ast.fix_missing_locations(tree)
            open(p, 'w').write(ast.unparse(tree) + '\n')
        t = tests(WT)
        verdicts = {}
        for prop in PROPS:
            rc, out = sh(PY, '/verif/sa/check.py', '--property', prop, '--tier', 'quick', '--root', WT, cwd='/verif', env=env, timeout=900)
            viol = [l for l in out.splitlines() if l.startswith('VIOLATION')]
            rules = sorted({l.split(' rule ')[1].split()[0] for l in out.splitlines() if ' rule ' in l and ' instance ' in l and 'KNOWN' not in l})
            verdicts[prop] = {'rc': rc, 'alarm': bool(rc or viol), 'rules': rules if (rc or viol) else []}
        alarms = sorted(p for p, v in verdicts.items() if v['alarm'])
        results[name] = {'doc': ' '.join(TRANSFORMS[name].__doc__.split()), 'edits': edits, 'tests': t[0], 'tests_same_as_head': t == base_tests,
                         'silent': len(PROPS) - len(alarms), 'alarms': {p: verdicts[p] for p in alarms}}
        print(f'{name}: {edits} edits; tests {t[0]} (same as HEAD: {t == base_tests}); silent {len(PROPS) - len(alarms)}/20; alarms {alarms}', flush=True)
    sh('git', '-C', '/repo', 'worktree', 'remove', '--force', WT)
    json.dump({'repo_head': head, 'head_tests': base_tests[0], 'results': results}, open('/verif/benign/GLOBAL.json', 'w'), indent=1, sort_keys=True)
    with open('/verif/benign/GLOBAL.md', 'w') as f:
        f.write('# Whole-package behaviour-preserving rewrites (tools/global_benign.py)\n\n')
        f.write(f'/repo HEAD {head[:7]}; test suite on HEAD: {base_tests[0]}. Every rewrite is applied to all non-test modules at once.\n\n')
        f.write('| rewrite | edits | tests same as HEAD | checks silent | alarms |\n|---|---|---|---|---|\n')
        for name, r in results.items():
            al = '; '.join(f'{p} {v["rules"]}' for p, v in r['alarms'].items()) or '-'
            f.write(f'| {name}: {r["doc"]} | {r["edits"]} | {r["tests_same_as_head"]} | {r["silent"]}/20 | {al} |\n')


if __name__ == '__main__':
    main()
