#!/venv/bin/python
"""Gap finder: generic ast-level mutants of the repository (in memory, nothing written to disk), every check run on each.
Prints the mutants on which NO check reports a violation, for manual triage (equivalent mutant? outside every property? or a gap).
usage: tools/mutation_sweep.py [file-substring] [--jobs N]"""
import ast, copy, json, os, sys, importlib, multiprocessing as mp
sys.path.insert(0, os.path.dirname(os.path.dirname(os.path.abspath(__file__))))
os.environ['VERIF_NO_EVIDENCE'] = '1'
from sa.srcmodel import Model
from sa.report import Report
from sa import engine

ROOT = '/repo'
PIDS = [f'C{i:02d}' for i in range(1, 21)]
CMP = {ast.Gt: ast.GtE, ast.GtE: ast.Gt, ast.Lt: ast.LtE, ast.LtE: ast.Lt, ast.Eq: ast.NotEq, ast.NotEq: ast.Eq, ast.Is: ast.IsNot, ast.IsNot: ast.Is, ast.In: ast.NotIn, ast.NotIn: ast.In}
BIN = {ast.Add: ast.Sub, ast.Sub: ast.Add, ast.Mult: ast.Div, ast.Div: ast.Mult, ast.BitAnd: ast.BitOr}
NAMES = {'min': 'max', 'max': 'min', 'nanmin': 'nanmax', 'argmax': 'argmin', 'argmin': 'argmax', 'mean': 'median', 'imap': 'imap_unordered',
         'logical_and': 'logical_or', 'startswith': 'endswith'}
STRS = {'peak': 'trough', 'trough': 'peak', 'rise': 'decay', 'decay': 'rise', 'next': 'last', 'last': 'next', 'cycles': 'amp', 'both': 'next'}


def sources():
    out = {}
    for d, dirs, fs in os.walk(os.path.join(ROOT, 'bycycle')):
        dirs[:] = [x for x in dirs if x not in ('tests', '__pycache__')]
        for f in fs:
            if f.endswith('.py'):
                p = os.path.join(d, f)
                out[os.path.relpath(p, ROOT)] = open(p).read()
    return out


def mutants(rel, src):
    tree = ast.parse(src)
    doc_nodes = set()
    for n in ast.walk(tree):
        if isinstance(n, (ast.FunctionDef, ast.ClassDef, ast.Module)) and n.body and isinstance(n.body[0], ast.Expr) and isinstance(n.body[0].value, ast.Constant):
            doc_nodes.add(id(n.body[0].value))
    sites = []
    for n in ast.walk(tree):
        if isinstance(n, ast.Compare) and len(n.ops) == 1 and type(n.ops[0]) in CMP:
            sites.append(('cmp', n))
        elif isinstance(n, ast.BinOp) and type(n.op) in BIN:
            sites.append(('bin', n))
        elif isinstance(n, ast.Constant) and isinstance(n.value, int) and not isinstance(n.value, bool) and -2 <= n.value <= 5 and id(n) not in doc_nodes:
            sites.append(('int+', n))
            sites.append(('int-', n))
        elif isinstance(n, ast.Constant) and isinstance(n.value, str) and n.value in STRS and id(n) not in doc_nodes:
            sites.append(('str', n))
        elif isinstance(n, ast.Attribute) and n.attr in NAMES:
            sites.append(('attr', n))
        elif isinstance(n, ast.Call) and isinstance(n.func, ast.Attribute) and n.func.attr in ('copy',) and not n.args:
            sites.append(('uncopy', n))
        elif isinstance(n, ast.Call) and isinstance(n.func, ast.Name) and n.func.id == 'deepcopy' and n.args:
            sites.append(('undeepcopy', n))
        elif isinstance(n, ast.Call) and len(n.args) >= 2 and isinstance(n.func, (ast.Name, ast.Attribute)) and \
                all(isinstance(a, (ast.Name, ast.Attribute, ast.Subscript)) for a in n.args[:2]):
            sites.append(('swapargs', n))
        elif isinstance(n, ast.UnaryOp) and isinstance(n.op, (ast.USub, ast.Not, ast.Invert)):
            sites.append(('dropunary', n))
    for fn in ast.walk(tree):
        if isinstance(fn, ast.FunctionDef):
            for st in ast.walk(fn):
                if isinstance(st, (ast.If, ast.For, ast.With, ast.FunctionDef)):
                    for body in (getattr(st, 'body', []), getattr(st, 'orelse', [])):
                        for s in body:
                            if isinstance(s, (ast.Expr, ast.Assign, ast.AugAssign)) and not (isinstance(s, ast.Expr) and isinstance(s.value, ast.Constant)) and len(body) > 1:
                                sites.append(('dropstmt', s))
    seen = set()
    for kind, node in sites:
        t2 = copy.deepcopy(tree)
        # locate the same node in the copy by position
        target = None
        for m in ast.walk(t2):
            if type(m) is type(node) and getattr(m, 'lineno', None) == getattr(node, 'lineno', None) and getattr(m, 'col_offset', None) == getattr(node, 'col_offset', None) \
                    and getattr(m, 'end_col_offset', None) == getattr(node, 'end_col_offset', None):
                target = m
                break
        if target is None:
            continue
        if kind == 'cmp':
            target.ops = [CMP[type(target.ops[0])]()]
        elif kind == 'bin':
            target.op = BIN[type(target.op)]()
        elif kind == 'int+':
            target.value += 1
        elif kind == 'int-':
            target.value -= 1
        elif kind == 'str':
            target.value = STRS[target.value]
        elif kind == 'attr':
            target.attr = NAMES[target.attr]
        elif kind in ('uncopy',):
            new = target.func.value
            _replace(t2, target, new)
        elif kind == 'undeepcopy':
            _replace(t2, target, target.args[0])
        elif kind == 'swapargs':
            target.args[0], target.args[1] = target.args[1], target.args[0]
        elif kind == 'dropunary':
            _replace(t2, target, target.operand)
        elif kind == 'dropstmt':
            _replace_stmt(t2, target)
        try:
            new_src = ast.unparse(t2)
            compile(new_src, rel, 'exec')
        except Exception:
            continue
        key = (kind, node.lineno, node.col_offset, new_src.__hash__())
        if key in seen or ast.unparse(tree) == new_src:
            continue
        seen.add(key)
        yield f'{rel}:{node.lineno}:{node.col_offset} {kind} [{ast.unparse(node)[:60]}]', new_src


def _replace(tree, old, new):
    for parent in ast.walk(tree):
        for f, v in ast.iter_fields(parent):
            if v is old:
                setattr(parent, f, new)
                return
            if isinstance(v, list):
                for i, x in enumerate(v):
                    if x is old:
                        v[i] = new
                        return


def _replace_stmt(tree, old):
    for parent in ast.walk(tree):
        for f, v in ast.iter_fields(parent):
            if isinstance(v, list):
                for i, x in enumerate(v):
                    if x is old:
                        v[i] = ast.Pass()
                        return


import signal


class SweepTimeout(BaseException):
    pass


def _alarm(signum, frame):
    raise SweepTimeout()


signal.signal(signal.SIGALRM, _alarm)


def run_one(args):
    label, rel, new_src, base = args
    srcs = dict(base)
    srcs[rel] = new_src
    fired = {}
    try:
        model = Model('<memory>', pkg='bycycle', sources=srcs)
    except Exception as e:
        return label, {'load': str(e)[:80]}
    for pid in PIDS:
        rep = Report(pid, 'quick', '<memory>')
        try:
            engine._cache.clear()
            from sa.rules import common
            common._cache.clear()
            mod = importlib.import_module(f'sa.rules.{pid.lower()}')
            del engine.PYERRORS[:]
            signal.alarm(180)
            mod.check(rep, model, 'quick')
            signal.alarm(0)
            engine.report_pyerrors(rep)
        except SweepTimeout:
            fired[pid] = 'engine:TIMEOUT'
            print('TIMEOUT', label, pid, flush=True)
            continue
        except Exception as e:
            signal.alarm(0)
            fired[pid] = f'engine:{type(e).__name__}'
            continue
        v = sorted({i['rule'] for i in rep.instances if i['status'] == 'violated'})
        u = sorted({i['rule'] for i in rep.instances if i['status'] == 'unresolved'})
        if v:
            fired[pid] = ','.join(v)
        elif u:
            fired[pid] = 'unresolved:' + ','.join(u)
    return label, fired


def main():
    pat = next((a for a in sys.argv[1:] if not a.startswith('--')), '')
    jobs = 16
    base = sources()
    work = []
    for rel, src in sorted(base.items()):
        if pat and pat not in rel:
            continue
        if rel.endswith(('__init__.py', 'version.py', 'download.py', 'checks.py', 'dualthresh.py')):
            continue
        for label, new_src in mutants(rel, src):
            work.append((label, rel, new_src, base))
    print(f'{len(work)} mutants', flush=True)
    survivors, detected, unresolved_only = [], 0, 0
    with mp.Pool(jobs) as pool:
        for label, fired in pool.imap_unordered(run_one, work, chunksize=2):
            hard = {k: v for k, v in fired.items() if not v.startswith('unresolved') and not v.startswith('engine')}
            if hard:
                detected += 1
            elif fired:
                unresolved_only += 1
                print('UNRESOLVED-ONLY', label, fired, flush=True)
            else:
                survivors.append(label)
                print('SURVIVOR', label, flush=True)
    print(f'total={len(work)} detected={detected} unresolved_only={unresolved_only} survivors={len(survivors)}')


if __name__ == '__main__':
    main()
