#!/usr/bin/env python3
"""Re-base stored patches (seeded/*/patch.diff, benign/*/patch.diff and candidate /tmp/wt/*.diff files) onto /repo's current HEAD after a fix: commit.

Each patch was recorded against some earlier commit of /repo.  For every patch that no longer applies to HEAD: find the newest ancestor it applies
to, commit it there in a scratch worktree (outside /repo and /verif), cherry-pick that commit onto HEAD and, when git merges it cleanly, overwrite the
stored patch with the re-based diff.  Conflicts are listed for manual resolution (the patch and a fix touch the same lines).
"""
import glob
import os
import subprocess
import sys

WT = '/tmp/wt/_rebase'


def sh(*cmd, cwd=None, check=False):
    p = subprocess.run(cmd, cwd=cwd, capture_output=True, text=True)
    if check and p.returncode:
        raise SystemExit(f'{cmd}: {p.stderr}')
    return p.returncode, p.stdout + p.stderr


def _parses(src):
    import ast
    try:
        ast.parse(src)
        return True
    except SyntaxError:
        return False


def reapply_fixes(src):
    """the textual edits of the fix: commits D12, D16-D19, for code a patch moved or rewrote (the non-conflicting parts were merged by git)"""
    import re
    # D16: one time per sample
    src = re.sub(r'np\.arange\(0, (len\([^()]*\)|\w+) / fs, 1 / fs\)', r'np.arange(\1) / fs', src)
    # D17: round, not truncate
    src = re.sub(r'(?<!round\()int\((fs \* \w+|fs\*\w+|\w+ \* fs|times\[0\] ?\* ?fs)\)', r'int(round(\1))', src)
    # D18: limits compared in seconds
    src = re.sub(r"(\.values|\.to_numpy\(\)) >= (\w+) ?\* ?fs\]", r"\1 / fs >= \2]", src)
    src = re.sub(r"(\.values|\.to_numpy\(\)) <= (\w+) ?\* ?fs\]", r"\1 / fs <= \2]", src)
    src = re.sub(r"\[(\w+) ?\* ?fs <= (\S+?(?:\.values|\.to_numpy\(\)))\]", r"[\1 <= \2 / fs]", src)
    src = re.sub(r"\[(\w+) ?\* ?fs >= (\S+?(?:\.values|\.to_numpy\(\)))\]", r"[\1 >= \2 / fs]", src)
    # D19: window end
    src = re.sub(r"< xlim\[1\] ?\* ?fs\)\]", "< len(times))]", src)
    src = re.sub(r"and last_cyc > 0:", "and last_cyc > 0 and next_cyc < len(times):", src)
    # D12: options read, not consumed
    src = re.sub(r"(\w+)\.pop\('burst_method', 'cycles'\)", r"\1.get('burst_method', 'cycles')", src)
    src = re.sub(r"(\w+)\.pop\('threshold_kwargs', \{\}\)", r"\1.get('threshold_kwargs', {})", src)
    # D15: the progress option is validated on the axis=None branch as well
    if 'epoch_df(df_flat' in src and 'progress_bar(dfs_features, progress' not in src:
        src = re.sub(r"^( +)(dfs_features = epoch_df\(df_flat.*\))\n", r"\1\2\n\n\1# Validate the progress option, as when axis is 0, and report progress across epochs\n"
                     r"\1dfs_features = list(progress_bar(dfs_features, progress, len(dfs_features)))\n", src, count=1, flags=re.M)
    # D14: an unknown burst_method in a per-epoch option set is rejected
    m = re.search(r"^( +)elif burst_method == 'amp':\n\1    (\w+)\[idx\] = detect_bursts_amp\(.*\)\n", src, flags=re.M)
    if m and not re.match(r"\s*\n?" + m.group(1) + r"else:", src[m.end():]):
        ind = m.group(1)
        src = src[:m.end()] + f"\n{ind}else:\n{ind}    raise ValueError('Invalid argument for \"burst_method\".'\n{ind}                     'Either \"cycles\" or \"amp\" must be specified.\"')\n" + src[m.end():]
    return src


def main():
    pat = next((a for a in sys.argv[1:] if not a.startswith('--')), '')
    head = sh('git', '-C', '/repo', 'rev-parse', 'HEAD')[1].strip()
    commits = sh('git', '-C', '/repo', 'rev-list', '--first-parent', '-n', '40', 'HEAD')[1].split()
    if not os.path.isdir(WT):
        sh('git', '-C', '/repo', 'worktree', 'add', '-q', '--detach', WT, head, check=True)
    patches = sorted(glob.glob('/verif/seeded/*/patch.diff') + glob.glob('/verif/benign/*/patch.diff') + glob.glob('/tmp/wt/C??.ben?.diff') + glob.glob('/tmp/wt/C??.mut?.diff'))
    conflicts, rebased, ok = [], [], 0
    for p in patches:
        if pat and pat not in p:
            continue
        sh('git', '-C', WT, 'reset', '-q', '--hard')
        sh('git', '-C', WT, 'checkout', '-q', '--detach', head)
        if sh('git', '-C', WT, 'apply', '--check', p)[0] == 0:
            ok += 1
            if '--refix' in sys.argv:
                sh('git', '-C', WT, 'apply', p, check=True)
                changed = sh('git', '-C', WT, 'diff', '--name-only', 'HEAD')[1].split()
                touched = False
                for f_ in changed:
                    fp = os.path.join(WT, f_)
                    if fp.endswith('.py') and os.path.exists(fp):
                        src = open(fp).read()
                        new = reapply_fixes(src)
                        if new != src and _parses(new):
                            open(fp, 'w').write(new)
                            touched = True
                if touched:
                    open(p, 'w').write(sh('git', '-C', WT, 'diff', 'HEAD')[1])
                    rebased.append(p + '   [fixes re-applied]')
                sh('git', '-C', WT, 'reset', '-q', '--hard')
            continue
        base = None
        for c in commits[1:]:
            sh('git', '-C', WT, 'checkout', '-q', '--detach', c)
            if sh('git', '-C', WT, 'apply', '--check', p)[0] == 0:
                base = c
                break
        if base is None:
            conflicts.append((p, 'applies to no recent commit'))
            continue
        sh('git', '-C', WT, 'apply', p, check=True)
        sh('git', '-C', WT, '-c', 'user.email=x@y', '-c', 'user.name=x', 'commit', '-qam', 'patch', check=True)
        tmp = sh('git', '-C', WT, 'rev-parse', 'HEAD')[1].strip()
        sh('git', '-C', WT, 'checkout', '-q', '--detach', head)
        rc, out = sh('git', '-C', WT, '-c', 'user.email=x@y', '-c', 'user.name=x', 'cherry-pick', '-n', tmp)
        if rc:
            # the patch and a fix touch the same lines: take the patch's side of the conflicting hunks, then re-apply the fixes' edits textually
            files = sh('git', '-C', WT, 'diff', '--name-only', '--diff-filter=U')[1].split()
            sh('git', '-C', WT, 'reset', '-q', '--hard')
            rc2, out2 = sh('git', '-C', WT, '-c', 'user.email=x@y', '-c', 'user.name=x', 'cherry-pick', '-n', '-X', 'theirs', tmp)
            if rc2:
                conflicts.append((p, f'conflict in {files} (base {base[:7]}), also with -X theirs'))
                sh('git', '-C', WT, 'reset', '-q', '--hard')
                continue
            changed = sh('git', '-C', WT, 'diff', '--name-only', 'HEAD')[1].split()
            bad = []
            for f_ in changed:
                fp = os.path.join(WT, f_)
                if not fp.endswith('.py') or not os.path.exists(fp):
                    continue
                src = open(fp).read()
                new = reapply_fixes(src)
                if new != src:
                    open(fp, 'w').write(new)
                if sh('/venv/bin/python', '-m', 'py_compile', fp)[0]:
                    bad.append(f_)
            if bad:
                conflicts.append((p, f'does not compile after the merge: {bad}'))
                sh('git', '-C', WT, 'reset', '-q', '--hard')
                continue
            open(p, 'w').write(sh('git', '-C', WT, 'diff', 'HEAD')[1])
            rebased.append(p + '   [conflicting hunks: patch side + fixes re-applied]')
            sh('git', '-C', WT, 'reset', '-q', '--hard')
            continue
        diff = sh('git', '-C', WT, 'diff', 'HEAD')[1]
        open(p, 'w').write(diff)
        rebased.append(p)
        sh('git', '-C', WT, 'reset', '-q', '--hard')
    print(f'{ok} apply to HEAD as they are; {len(rebased)} re-based; {len(conflicts)} need manual resolution')
    for p in rebased:
        print('  rebased', p)
    for p, why in conflicts:
        print('  CONFLICT', p, why)
    sh('git', '-C', '/repo', 'worktree', 'remove', '--force', WT)


if __name__ == '__main__':
    main()
