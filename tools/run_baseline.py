#!/venv/bin/python
"""Run the repository's pinned baseline (34 stable tests, /root/.vp/BASELINE.json) and report whether
all of them still pass.  Used after every fix: commit in /repo.  No hooks exist, so guard on/off is moot."""
import json, os, subprocess, sys, tempfile, xml.etree.ElementTree as ET
base = json.load(open('/root/.vp/BASELINE.json'))
with tempfile.TemporaryDirectory() as d:
    x = os.path.join(d, 'r.xml')
    p = subprocess.run(['/venv/bin/python', '-m', 'pytest', '-ra', '-q', '-p', 'no:cacheprovider', '--timeout=900',
                        '--continue-on-collection-errors', f'--junitxml={x}'], cwd='/repo',
                       stdout=subprocess.PIPE, stderr=subprocess.STDOUT, text=True)
    ok = set(); bad = set()
    for tc in ET.parse(x).getroot().iter('testcase'):
        name = f"{tc.get('classname')}::{tc.get('name')}"
        (bad if any(c.tag in ('failure', 'error', 'skipped') for c in tc) else ok).add(name)
missing = [t for t in base['stable_pass'] if t not in ok]
print(f"baseline stable={len(base['stable_pass'])} passing_now={len(base['stable_pass'])-len(missing)} total_pass={len(ok)} total_fail={len(bad)}")
for t in missing: print('  NOT PASSING:', t)
for t in sorted(bad): print('  (failing, not in baseline or listed above):', t)
sys.exit(1 if missing else 0)
